//! C07 — every descriptor owned by an `AsyncFd` is closed exactly once, the right way.
//!
//! Real a10 code on the simulated kernel: rings with 1, 2 or 4 submission slots (so that the
//! "queue full" fallbacks of `Drop for AsyncFd` happen), with or without a direct descriptor
//! table. A generated history creates descriptors through the real futures (`open`, `socket`,
//! `pipe`, `accept`, `multishot_accept`, `to_direct_descriptor`, `to_file_descriptor`, plus
//! `AsyncFd::from_raw_fd` and the standard-stream wrappers), lets the kernel complete them with
//! the lowest free descriptor number / slot of the table the *request* asked for, and
//! interleaves polls, drops of the futures before and after their completion, drops of the
//! `AsyncFd`s, explicit `close()` futures (polled, dropped before the first poll, dropped after
//! submission) and `Ring::poll`. Every history ends by dropping whatever is left and polling
//! the ring, with the ring still alive.
//!
//! The kernel may also refuse a pipe request with EINVAL (IORING_OP_PIPE does not exist before
//! Linux 6.16): `PipeOp::fallback` then calls the REAL pipe2(2) from inside the poll of the
//! future. The two numbers are real descriptors of the harness process; the driver learns them
//! by comparing the process descriptor table (fcntl F_GETFD) before and after that poll —
//! not from what the `AsyncFd`s report —, writes them into the `KPipeInval` event after the
//! fact, enters them in the kernel-side oracle table as regular descriptors issued to that
//! operation and registers them with the simulated kernel (`simk::add_real_fd`), which from
//! then on really closes them when it executes a CLOSE naming them or sees `close(2)` on them.
//! At the end of every history the process descriptor table is compared with the oracle table.
//!
//! The observation (diffed against Model/FdTable.v) is what the kernel sees — CLOSE
//! submissions, `close(2)`, IORING_REGISTER_FILES_UPDATE — and the (kind, number) of every
//! `AsyncFd` handed out. The oracle does not use the model: it keeps the kernel's own table of
//! open descriptors and checks every close against it.

use std::collections::{BTreeMap, BTreeSet};
use std::future::Future;
use std::pin::Pin;
use std::sync::{Arc, Mutex, Once};
use std::task::Poll;
use std::time::Duration;

use a10::AsyncFd;

use crate::out::{self, Case, Spec};
use crate::rng::Rng;
use crate::simk::{self, abi, Ev};
use crate::util::{poll_once, WakeLog};
use crate::Args;

const REG_BASE: u32 = 1_000_000;
const REG_POOL: u32 = 96;

#[derive(Clone, Copy, Debug, PartialEq, Eq, PartialOrd, Ord)]
enum K {
    Regular,
    Direct,
}

impl K {
    fn z(self) -> i128 {
        match self {
            K::Regular => 0,
            K::Direct => 1,
        }
    }
    fn coq(self) -> &'static str {
        match self {
            K::Regular => "Regular",
            K::Direct => "Direct",
        }
    }
    fn a10(self) -> a10::fd::Kind {
        match self {
            K::Regular => a10::fd::Kind::File,
            K::Direct => a10::fd::Kind::Direct,
        }
    }
}

type Desc = (u32, K);

#[derive(Clone, Copy, Debug)]
enum Cop {
    Open(K),
    Socket(K),
    Pipe(K),
    Accept(usize),
    Multi(usize),
    ToDirect(usize),
    ToFd(usize),
}

impl Cop {
    fn src(&self) -> Option<usize> {
        match self {
            Cop::Accept(h) | Cop::Multi(h) | Cop::ToDirect(h) | Cop::ToFd(h) => Some(*h),
            _ => None,
        }
    }
    fn coq(&self) -> String {
        match self {
            Cop::Open(k) => format!("COpen {}", k.coq()),
            Cop::Socket(k) => format!("CSocket {}", k.coq()),
            Cop::Pipe(k) => format!("CPipe {}", k.coq()),
            Cop::Accept(h) => format!("CAccept {h}%nat"),
            Cop::Multi(h) => format!("CMultiAccept {h}%nat"),
            Cop::ToDirect(h) => format!("CToDirect {h}%nat"),
            Cop::ToFd(h) => format!("CToFd {h}%nat"),
        }
    }
    fn name(&self) -> String {
        match self {
            Cop::Open(k) => format!("open({})", k.coq()),
            Cop::Socket(k) => format!("socket({})", k.coq()),
            Cop::Pipe(k) => format!("pipe({})", k.coq()),
            Cop::Accept(h) => format!("fd{h}.accept"),
            Cop::Multi(h) => format!("fd{h}.multishot_accept"),
            Cop::ToDirect(h) => format!("fd{h}.to_direct_descriptor"),
            Cop::ToFd(h) => format!("fd{h}.to_file_descriptor"),
        }
    }
    fn tag(&self) -> &'static str {
        match self {
            Cop::Open(K::Regular) => "op:open",
            Cop::Open(K::Direct) => "op:open-direct",
            Cop::Socket(K::Regular) => "op:socket",
            Cop::Socket(K::Direct) => "op:socket-direct",
            Cop::Pipe(K::Regular) => "op:pipe",
            Cop::Pipe(K::Direct) => "op:pipe-direct",
            Cop::Accept(_) => "op:accept",
            Cop::Multi(_) => "op:multishot-accept",
            Cop::ToDirect(_) => "op:to-direct",
            Cop::ToFd(_) => "op:to-fd",
        }
    }
}

#[derive(Clone, Debug)]
enum Event {
    Adopt(u32),
    Std(u32),
    NewOp(Cop),
    PollOp(usize),
    DropOp(usize),
    KComplete(usize, u32, u32, bool),
    KFail(usize, i32),
    /// The kernel refuses the pipe request with EINVAL; the two numbers are what pipe2(2)
    /// returned in the poll that ran the fallback (filled in afterwards; 0, 0 if it never ran).
    KPipeInval(usize, u32, u32),
    RingPoll,
    DropFd(usize),
    CloseFd(usize),
    PollClose(usize),
    DropClose(usize),
}

fn coq_event(e: &Event) -> String {
    match e {
        Event::Adopt(fd) => format!("Adopt {fd}%N"),
        Event::Std(n) => format!("StdStream {n}%N"),
        Event::NewOp(c) => format!("NewOp ({})", c.coq()),
        Event::PollOp(i) => format!("PollOp {i}%nat"),
        Event::DropOp(i) => format!("DropOp {i}%nat"),
        Event::KComplete(i, a, b, m) => format!("KComplete {i}%nat {a}%N {b}%N {m}"),
        Event::KFail(i, e) => format!("KFail {i}%nat {e}"),
        Event::KPipeInval(i, a, b) => format!("KPipeInval {i}%nat {a}%N {b}%N"),
        Event::RingPoll => "RingPoll".into(),
        Event::DropFd(h) => format!("DropFd {h}%nat"),
        Event::CloseFd(h) => format!("CloseFd {h}%nat"),
        Event::PollClose(c) => format!("PollClose {c}%nat"),
        Event::DropClose(c) => format!("DropClose {c}%nat"),
    }
}

fn json_event(e: &Event, ops: &[OpSt]) -> String {
    let opname = |i: &usize| ops.get(*i).map_or(String::from("?"), |o| o.cop.name());
    let s = match e {
        Event::Adopt(fd) => format!("fd = AsyncFd::from_raw_fd({fd})"),
        Event::Std(n) => format!("fd = a10::io::{}(sq)", ["stdin", "stdout", "stderr"][*n as usize % 3]),
        Event::NewOp(c) => format!("op = {}", c.name()),
        Event::PollOp(i) => format!("poll(op{i}: {})", opname(i)),
        Event::DropOp(i) => format!("drop(op{i}: {})", opname(i)),
        Event::KComplete(i, a, b, m) => format!("kernel completes op{i} with descriptor {a}{}{}", if matches!(ops.get(*i).map(|o| o.cop), Some(Cop::Pipe(_))) { format!(" and {b}") } else { String::new() }, if *m { " (more)" } else { "" }),
        Event::KFail(i, e) => format!("kernel fails op{i} with errno {e}"),
        Event::KPipeInval(i, a, b) => format!("kernel refuses op{i} with EINVAL (no IORING_OP_PIPE); pipe2(2), if the fallback gets to run, returns {a} and {b}"),
        Event::RingPoll => "ring.poll".into(),
        Event::DropFd(h) => format!("drop(fd{h})"),
        Event::CloseFd(h) => format!("close = fd{h}.close()"),
        Event::PollClose(c) => format!("poll(close{c})"),
        Event::DropClose(c) => format!("drop(close{c})"),
    };
    out::jstr(&s)
}

type BoxFut<T> = Pin<Box<dyn Future<Output = std::io::Result<T>>>>;

enum Fut {
    One(BoxFut<AsyncFd>),
    Accept(BoxFut<(AsyncFd, a10::net::NoAddress)>),
    Pipe(BoxFut<[AsyncFd; 2]>),
    /// `socket` and `pipe` futures kept unboxed: their builder method `kind` can then be called
    /// again at any time (it must be without effect once the operation has been started).
    Sock(Option<a10::net::Socket>),
    PipeF(Option<a10::pipe::Pipe>),
    Multi(Pin<Box<a10::net::MultishotAccept<'static>>>),
}

enum HObj {
    Fd(Box<AsyncFd>),
    In(Box<a10::io::Stdin>),
    Out(Box<a10::io::Stdout>),
    Err(Box<a10::io::Stderr>),
}

impl HObj {
    fn fd(&self) -> &AsyncFd {
        match self {
            HObj::Fd(b) => b,
            HObj::In(b) => b,
            HObj::Out(b) => b,
            HObj::Err(b) => b,
        }
    }
}

struct HandleSt {
    obj: Option<HObj>,
    std: bool,
    kind: K,
    num: u32,
    /// Made by the pipe2(2) fallback of a pipe requested with this kind.
    fallback_of: Option<K>,
}

struct OpSt {
    cop: Cop,
    fut: Option<Fut>,
    ud: Option<u64>,
    /// Its request has been put in the submission queue.
    started: bool,
    /// The future returned its last value.
    finished: bool,
    /// Completions posted by the kernel and not yet processed by a Ring::poll / processed and
    /// not yet taken by the future (generation guidance only).
    posted: usize,
    avail: usize,
    /// The kernel refused the request with EINVAL (pipe only).
    inval: bool,
}

struct CloseSt {
    fut: Option<Pin<Box<a10::io::Close>>>,
    ud: Option<u64>,
    desc: Desc,
    /// Its CLOSE request has been put in the submission queue.
    submitted: bool,
    finished: bool,
    /// The kernel answered its CLOSE with EINTR (the flush was interrupted: the descriptor is
    /// closed all the same, close(2) NOTES).
    interrupted: bool,
}

/// Oracle's record of a descriptor the kernel has open.
#[derive(Clone, Debug)]
struct Info {
    /// Creator the kernel delivered it to (`None`: adopted with `from_raw_fd`).
    op: Option<usize>,
    /// An `AsyncFd` for it has been handed to the caller.
    handed: bool,
    /// `close()` was called on it and that future was dropped before submitting anything.
    close_never_started: bool,
}

/// What the harness knows each queued submission to be, by position in the FIFO (user_data
/// values cannot identify an operation for ever: a freed state's address is reused).
#[derive(Clone, Copy, Debug)]
enum Queued {
    Create(usize),
    Cancel(usize, u64),
    CloseOp(usize),
    CancelClose(usize, u64),
    CloseBg,
}

enum PollOut {
    Pending,
    Fds(Vec<AsyncFd>),
    Err(std::io::Error),
    End,
}

struct World {
    ring: Option<a10::Ring>,
    sq: Option<a10::SubmissionQueue>,
    nslots: u32,
    handles: Vec<HandleSt>,
    ops: Vec<OpSt>,
    closes: Vec<CloseSt>,
    wakes: WakeLog,
    obs: Vec<i128>,
    silent: Arc<Mutex<Option<String>>>,
    shadow: std::collections::VecDeque<Queued>,
    // ---- oracle (kernel's point of view) ----
    ktab: BTreeMap<Desc, Info>,
    violation: Option<String>,
    issued: usize,
    closed_ok: usize,
    ever: BTreeSet<Desc>,
    tags: BTreeSet<String>,
    /// First observation code of the most recent poll of a creator (10 = pending).
    last_poll: i128,
    /// Per operation: the two real descriptors pipe2(2) created in its fallback.
    fallback_fds: BTreeMap<usize, (u32, u32)>,
    /// Process descriptors open when the history started (ring, worker plumbing).
    base_fds: Vec<i32>,
}

/// Upper bound of the process descriptor numbers looked at (the harness keeps far below it).
const FD_SCAN: i32 = 512;

/// The process descriptor table, asked of the real kernel.
fn open_fds() -> Vec<i32> {
    (0..FD_SCAN).filter(|fd| unsafe { libc::fcntl(*fd, libc::F_GETFD) } != -1).collect()
}

fn describe(fd: &AsyncFd) -> (K, i128) {
    let k = match fd.kind() {
        a10::fd::Kind::File => K::Regular,
        _ => K::Direct,
    };
    // `AsyncFd { fd: <number>, kind: <Kind> }`
    let dbg = format!("{fd:?}");
    let num = dbg
        .split("fd: ")
        .nth(1)
        .and_then(|r| r.split(|c: char| c == ',' || c == ' ').next())
        .and_then(|n| n.parse::<i128>().ok())
        .unwrap_or(-1);
    (k, num)
}

impl World {
    fn fail(&mut self, what: String) {
        if self.violation.is_none() {
            self.violation = Some(what);
        }
    }

    fn panic_msg(&self) -> String {
        self.silent.lock().unwrap().take().unwrap_or_default()
    }

    fn href(&self, h: usize) -> &'static AsyncFd {
        // The boxes are only dropped once no live future borrows them (generation rule, and
        // the borrow checker's rule for real callers).
        unsafe { &*(self.handles[h].obj.as_ref().unwrap().fd() as *const AsyncFd) }
    }

    /// A new operation state can be allocated where a freed one was: the user_data then names
    /// the new operation only.
    fn forget_ud(&mut self, ud: Option<u64>) {
        for o in self.ops.iter_mut() {
            if o.ud == ud {
                o.ud = None;
            }
        }
        for c in self.closes.iter_mut() {
            if c.ud == ud {
                c.ud = None;
            }
        }
    }

    /// After an a10 call: if it queued a submission, remember what it is.
    fn note_queued(&mut self, before: u32, what: Queued) -> bool {
        let after = simk::with(|s| s.sq_pending());
        if after == before.wrapping_add(1) {
            self.shadow.push_back(what);
            true
        } else {
            if after != before {
                self.fail(format!("one call queued {} submissions", after.wrapping_sub(before)));
            }
            false
        }
    }

    fn borrowed(&self, h: usize) -> bool {
        self.ops.iter().any(|o| o.fut.is_some() && o.cop.src() == Some(h))
    }

    fn lowest_free(&self, k: K, skip: Option<u32>) -> Option<u32> {
        let (lo, hi) = match k {
            K::Regular => (REG_BASE, REG_BASE + REG_POOL),
            K::Direct => (0, self.nslots),
        };
        (lo..hi).find(|n| !self.ktab.contains_key(&(*n, k)) && Some(*n) != skip)
    }

    fn inflight_sqe(&self, i: usize) -> Option<(u64, abi::Sqe)> {
        let ud = self.ops[i].ud?;
        simk::with(|s| s.inflight.iter().find(|r| r.sqe.user_data == ud).map(|r| (r.req, r.sqe)))
    }

    /// Which table the request asks the kernel to allocate from (read off the SQE, as the
    /// kernel does).
    fn requested_kind(sqe: &abi::Sqe) -> Option<K> {
        match sqe.opcode {
            // io_files_update_prep reads the offset into a u32.
            abi::OP_FILES_UPDATE => (sqe.off as u32 == abi::FILE_INDEX_ALLOC).then_some(K::Direct),
            abi::OP_FIXED_FD_INSTALL => Some(K::Regular),
            abi::OP_OPENAT | abi::OP_SOCKET | abi::OP_ACCEPT | abi::OP_PIPE => match sqe.file_index {
                0 => Some(K::Regular),
                abi::FILE_INDEX_ALLOC => Some(K::Direct),
                _ => None,
            },
            _ => None,
        }
    }

    // ---- oracle -------------------------------------------------------------------------------

    fn oracle_issue(&mut self, d: Desc, op: Option<usize>) {
        if self.ever.contains(&d) {
            self.tags.insert("number-reused".into());
        }
        self.ever.insert(d);
        self.issued += 1;
        self.ktab.insert(d, Info { op, handed: op.is_none(), close_never_started: false });
    }

    fn oracle_close(&mut self, d: Desc, how: &str) {
        if d.1 == K::Regular && d.0 < 3 {
            self.fail(format!("{how} closes standard stream {}", d.0));
            return;
        }
        match self.ktab.remove(&d) {
            Some(_) => self.closed_ok += 1,
            None => {
                let why = if self.ever.contains(&d) {
                    "it was already closed (closed twice)"
                } else if self.ever.contains(&(d.0, if d.1 == K::Regular { K::Direct } else { K::Regular })) {
                    "a descriptor with that number exists only in the other table (closed as the wrong kind)"
                } else {
                    "the kernel never issued it"
                };
                self.fail(format!("{how} targets {} descriptor {} which is not open: {why}", d.1.coq(), d.0));
            }
        }
    }

    /// io_close_prep/io_close: `file_index == 0` closes regular `sqe.fd`, else slot `file_index - 1`.
    fn oracle_close_sqe(&mut self, sqe: &abi::Sqe) {
        let how = if sqe.user_data == 3 { "CLOSE submitted by Drop" } else { "CLOSE submitted by close()" };
        if sqe.flags & abi::SQE_FIXED_FILE != 0 {
            // io_close_prep: `if (req->flags & REQ_F_FIXED_FILE) return -EBADF;`
            self.fail(format!("{how} carries IOSQE_FIXED_FILE (fd = {}, file_index = {}): the kernel refuses such a CLOSE with EBADF, nothing is closed", sqe.fd, sqe.file_index));
        } else if sqe.file_index == 0 {
            if sqe.fd < 0 {
                self.fail(format!("{how} names the negative descriptor {}", sqe.fd));
            } else {
                self.oracle_close((sqe.fd as u32, K::Regular), how);
            }
        } else if sqe.fd != 0 {
            self.fail(format!("{how} sets both fd = {} and file_index = {} (EINVAL: nothing is closed)", sqe.fd, sqe.file_index));
        } else {
            self.oracle_close((sqe.file_index - 1, K::Direct), how);
        }
    }

    fn oracle_handout(&mut self, i: usize, k: K, num: i128) {
        let d = (num as u32, k);
        let ok = num >= 0 && matches!(self.ktab.get(&d), Some(info) if info.op == Some(i) && !info.handed);
        if ok {
            self.ktab.get_mut(&d).unwrap().handed = true;
        } else {
            let pending: Vec<String> = self
                .ktab
                .iter()
                .filter(|(_, info)| info.op == Some(i) && !info.handed)
                .map(|(d, _)| format!("{} {}", d.1.coq(), d.0))
                .collect();
            self.fail(format!(
                "op{i} ({}) handed out an AsyncFd reporting {} descriptor {num}, but what the kernel (or pipe2(2) in the fallback) returned for it is [{}]",
                self.ops[i].cop.name(),
                k.coq(),
                pending.join(", ")
            ));
        }
    }

    // ---- reading what the kernel saw ---------------------------------------------------------------

    /// Returns the in-flight request ids of CLOSE operations (from `close()` futures) consumed.
    fn drain(&mut self) -> Vec<u64> {
        let mut close_reqs = Vec::new();
        let log = simk::with(|s| s.take_log());
        for e in log {
            match e {
                Ev::Consumed { sqe, req } => {
                    let what = self.shadow.pop_front();
                    match (sqe.opcode, what) {
                        (abi::OP_CLOSE, Some(Queued::CloseBg)) | (abi::OP_CLOSE, Some(Queued::CloseOp(_))) => {
                            let bg = sqe.user_data == 3;
                            self.obs.extend([20, bg as i128, sqe.fd as i128, sqe.file_index as i128, (sqe.flags & abi::SQE_FIXED_FILE != 0) as i128]);
                            if bg != matches!(what, Some(Queued::CloseBg)) {
                                self.fail(format!("CLOSE with user_data {:#x} queued as {what:?}", sqe.user_data));
                            }
                            if bg && sqe.flags & abi::SQE_CQE_SKIP_SUCCESS == 0 {
                                self.fail("background CLOSE without CQE_SKIP_SUCCESS".into());
                            }
                            if bg != req.is_none() {
                                self.fail("the simulated kernel and the harness disagree on which CLOSE is Drop's".into());
                            }
                            self.oracle_close_sqe(&sqe);
                            if let Some(r) = req {
                                close_reqs.push(r);
                            }
                        }
                        (abi::OP_ASYNC_CANCEL, Some(Queued::Cancel(i, ud))) => {
                            self.obs.extend([22, i as i128]);
                            if sqe.addr != ud || sqe.user_data != 2 {
                                self.fail(format!("the cancellation queued by dropping op{i} names user_data {:#x}, the operation's is {ud:#x}", sqe.addr));
                            }
                        }
                        (abi::OP_ASYNC_CANCEL, Some(Queued::CancelClose(c, ud))) => {
                            self.obs.extend([23, c as i128]);
                            if sqe.addr != ud || sqe.user_data != 2 {
                                self.fail(format!("the cancellation queued by dropping close{c} names user_data {:#x}, the operation's is {ud:#x}", sqe.addr));
                            }
                        }
                        (op, Some(Queued::Create(i))) if op != abi::OP_CLOSE && op != abi::OP_ASYNC_CANCEL => {
                            self.obs.extend([21, i as i128]);
                            if Some(sqe.user_data) != self.ops[i].ud {
                                self.fail(format!("the submission of op{i} carries another user_data than when it was queued"));
                            }
                        }
                        _ => self.fail(format!("the kernel consumed {sqe:?} where the harness expected {what:?}")),
                    }
                }
                Ev::Register { opcode, detail, .. }
                    if opcode == abi::REGISTER_FILES_UPDATE || opcode == abi::REGISTER_FILES_UPDATE2 =>
                {
                    // "offset=<n> fds=[a, b]"
                    let offset = detail.split("offset=").nth(1).and_then(|r| r.split(' ').next()).and_then(|n| n.parse::<u32>().ok());
                    let fds: Vec<i32> = detail
                        .split("fds=[")
                        .nth(1)
                        .and_then(|r| r.split(']').next())
                        .map(|l| l.split(',').filter_map(|x| x.trim().parse().ok()).collect())
                        .unwrap_or_default();
                    match offset {
                        Some(off) => {
                            self.obs.push(31);
                            self.obs.push(off as i128);
                            for (j, v) in fds.iter().enumerate() {
                                self.obs.push(*v as i128);
                                if *v == -1 {
                                    self.oracle_close((off + j as u32, K::Direct), "IORING_REGISTER_FILES_UPDATE");
                                } else {
                                    self.fail(format!("IORING_REGISTER_FILES_UPDATE stores {v} in slot {}", off + j as u32));
                                }
                            }
                        }
                        None => self.fail(format!("unreadable files update: {detail}")),
                    }
                }
                Ev::Corrupt { what } => self.fail(what),
                _ => {}
            }
        }
        for fd in simk::take_closes() {
            self.obs.extend([30, fd as i128]);
            if fd < 0 {
                self.fail(format!("close({fd})"));
            } else {
                self.oracle_close((fd as u32, K::Regular), "close(2)");
            }
        }
        close_reqs
    }

    // ---- events -------------------------------------------------------------------------------------

    fn push_handle(&mut self, obj: HObj, std: bool) {
        let (kind, num) = describe(obj.fd());
        self.handles.push(HandleSt { obj: Some(obj), std, kind, num: num.max(0) as u32, fallback_of: None });
    }

    fn do_adopt(&mut self, fd: u32) {
        self.oracle_issue((fd, K::Regular), None);
        let sq = self.sq.clone().unwrap();
        let afd = unsafe { AsyncFd::from_raw_fd(fd as i32, sq) };
        self.push_handle(HObj::Fd(Box::new(afd)), false);
    }

    fn do_std(&mut self, n: u32) {
        let sq = self.sq.clone().unwrap();
        let obj = match n {
            0 => HObj::In(Box::new(a10::io::stdin(sq))),
            1 => HObj::Out(Box::new(a10::io::stdout(sq))),
            _ => HObj::Err(Box::new(a10::io::stderr(sq))),
        };
        self.push_handle(obj, true);
    }

    fn do_new_op(&mut self, cop: Cop) {
        let sq = self.sq.clone().unwrap();
        let i = self.ops.len();
        let fut = match cop {
            // Every way the API has of building an `Open`, with the builder calls in varying order:
            // the requested kind must survive all of them.
            Cop::Open(k) => Fut::One(Box::pin(match (i % 4, k) {
                (0, _) => a10::fs::OpenOptions::new().read().kind(k.a10()).open(sq, format!("/c07/file{i}").into()),
                (1, _) => {
                    self.tags.insert("open:kind()-first".into());
                    a10::fs::OpenOptions::new().kind(k.a10()).write().create().truncate().open(sq, format!("/c07/file{i}").into())
                }
                (2, _) => {
                    self.tags.insert("open:open_temp_file".into());
                    a10::fs::OpenOptions::new().kind(k.a10()).write().open_temp_file(sq, "/c07".into())
                }
                (_, K::Regular) => {
                    self.tags.insert("open:fs::open_file".into());
                    a10::fs::open_file(sq, format!("/c07/file{i}").into())
                }
                (_, _) => {
                    self.tags.insert("open:open_temp_file".into());
                    a10::fs::OpenOptions::new().read().write().create().kind(k.a10()).open_temp_file(sq, "/c07".into())
                }
            })),
            Cop::Socket(k) => Fut::Sock(Some(a10::net::socket(sq, a10::net::Domain::IPV4, a10::net::Type::STREAM, None).kind(k.a10()))),
            Cop::Pipe(k) => Fut::PipeF(Some(a10::pipe::pipe(sq).kind(k.a10()))),
            Cop::Accept(h) => Fut::Accept(Box::pin(self.href(h).accept::<a10::net::NoAddress>())),
            Cop::Multi(h) => Fut::Multi(Box::pin(self.href(h).multishot_accept())),
            Cop::ToDirect(h) => Fut::One(Box::pin(self.href(h).to_direct_descriptor())),
            Cop::ToFd(h) => Fut::One(Box::pin(self.href(h).to_file_descriptor())),
        };
        self.tags.insert(cop.tag().into());
        self.ops.push(OpSt { cop, fut: Some(fut), ud: None, started: false, finished: false, posted: 0, avail: 0, inval: false });
    }

    fn do_poll_op(&mut self, i: usize) {
        let before = simk::with(|s| s.sq_pending());
        let waker = self.wakes.waker(i as u64);
        // A refused pipe: this poll may run the pipe2(2) fallback. What it creates is read off
        // the process descriptor table, independently of what the future returns.
        let scan = self.ops[i].inval && !self.ops[i].finished && self.ops[i].fut.is_some();
        let fds_before = if scan { open_fds() } else { Vec::new() };
        // A builder method called on an operation that has been started already (one poll in three
        // of a started socket / pipe): asking for the other kind now must change nothing — the
        // kernel was asked for the first one (and may have delivered it already).
        if self.ops[i].started && (self.obs.len() + i) % 3 == 0 {
            let other = |k: K| if k == K::Regular { a10::fd::Kind::Direct } else { a10::fd::Kind::File };
            match (self.ops[i].cop, self.ops[i].fut.as_mut()) {
                (Cop::Socket(k), Some(Fut::Sock(f))) => {
                    *f = f.take().map(|s| s.kind(other(k)));
                    self.tags.insert("kind()-called-after-start".into());
                }
                (Cop::Pipe(k), Some(Fut::PipeF(f))) => {
                    *f = f.take().map(|p| p.kind(other(k)));
                    self.tags.insert("kind()-called-after-start".into());
                }
                _ => {}
            }
        }
        let Some(fut) = self.ops[i].fut.as_mut() else { return };
        let r = std::panic::catch_unwind(std::panic::AssertUnwindSafe(|| match fut {
            Fut::Sock(f) => match poll_once(Pin::new(f.as_mut().unwrap()), &waker) {
                Poll::Pending => PollOut::Pending,
                Poll::Ready(Ok(fd)) => PollOut::Fds(vec![fd]),
                Poll::Ready(Err(e)) => PollOut::Err(e),
            },
            Fut::PipeF(f) => match poll_once(Pin::new(f.as_mut().unwrap()), &waker) {
                Poll::Pending => PollOut::Pending,
                Poll::Ready(Ok(fds)) => PollOut::Fds(Vec::from(fds)),
                Poll::Ready(Err(e)) => PollOut::Err(e),
            },
            Fut::One(f) => match poll_once(f.as_mut(), &waker) {
                Poll::Pending => PollOut::Pending,
                Poll::Ready(Ok(fd)) => PollOut::Fds(vec![fd]),
                Poll::Ready(Err(e)) => PollOut::Err(e),
            },
            Fut::Accept(f) => match poll_once(f.as_mut(), &waker) {
                Poll::Pending => PollOut::Pending,
                Poll::Ready(Ok((fd, _))) => PollOut::Fds(vec![fd]),
                Poll::Ready(Err(e)) => PollOut::Err(e),
            },
            Fut::Pipe(f) => match poll_once(f.as_mut(), &waker) {
                Poll::Pending => PollOut::Pending,
                Poll::Ready(Ok(fds)) => PollOut::Fds(Vec::from(fds)),
                Poll::Ready(Err(e)) => PollOut::Err(e),
            },
            Fut::Multi(f) => {
                let mut ctx = std::task::Context::from_waker(&waker);
                match f.as_mut().poll_next(&mut ctx) {
                    Poll::Pending => PollOut::Pending,
                    Poll::Ready(None) => PollOut::End,
                    Poll::Ready(Some(Ok(fd))) => PollOut::Fds(vec![fd]),
                    Poll::Ready(Some(Err(e))) => PollOut::Err(e),
                }
            }
        }));
        let multi = matches!(self.ops[i].cop, Cop::Multi(_));
        if scan {
            let created: Vec<i32> = open_fds().into_iter().filter(|fd| !fds_before.contains(fd)).collect();
            for fd in &created {
                simk::add_real_fd(*fd);
            }
            let requested = match self.ops[i].cop {
                Cop::Pipe(k) => k,
                _ => K::Regular,
            };
            match created.as_slice() {
                [] => {}
                [a, b] => {
                    // pipe2(2): the read end gets the lower number.
                    self.fallback_fds.insert(i, (*a as u32, *b as u32));
                    self.oracle_issue((*a as u32, K::Regular), Some(i));
                    self.oracle_issue((*b as u32, K::Regular), Some(i));
                    self.tags.insert(format!("pipe-fallback:pipe2-ran:requested-{}", requested.coq()));
                    if !matches!(r, Ok(PollOut::Fds(_))) {
                        self.fail(format!("polling op{i} created process descriptors {a} and {b} (pipe2 fallback) but returned no AsyncFd for them"));
                    }
                }
                other => self.fail(format!("polling op{i} (refused pipe) created process descriptors {other:?}: expected the two of pipe2(2)")),
            }
        }
        let out = match r {
            Ok(o) => o,
            Err(_) => {
                let msg = self.panic_msg();
                self.obs.push(99);
                self.last_poll = 99;
                std::mem::forget(self.ops[i].fut.take());
                self.ops[i].finished = true;
                self.fail(format!("polling op{i} panicked: {msg}"));
                return;
            }
        };
        if self.note_queued(before, Queued::Create(i)) {
            let ud = simk::with(|s| s.pending_sqes().last().map(|q| q.user_data));
            self.forget_ud(ud);
            self.ops[i].ud = ud;
            self.ops[i].started = true;
        }
        if !matches!(out, PollOut::Pending) {
            self.ops[i].avail = self.ops[i].avail.saturating_sub(1);
        }
        self.last_poll = match out {
            PollOut::Pending => 10,
            PollOut::End => 13,
            PollOut::Err(_) => 12,
            PollOut::Fds(_) => 11,
        };
        match out {
            PollOut::Pending => self.obs.push(10),
            PollOut::End => {
                self.obs.push(13);
                self.ops[i].finished = true;
            }
            PollOut::Err(e) => {
                self.obs.extend([12, -(e.raw_os_error().unwrap_or(99_999) as i128)]);
                if !multi {
                    self.ops[i].finished = true;
                }
            }
            PollOut::Fds(fds) => {
                for fd in fds {
                    let (k, num) = describe(&fd);
                    self.obs.extend([11, k.z(), num]);
                    // What the public accessor says must agree with the Debug rendering.
                    if k == K::Regular {
                        let raw = fd.as_fd().map(|b| std::os::fd::AsRawFd::as_raw_fd(&b) as i128);
                        if raw != Some(num) {
                            self.fail(format!("op{i}: as_fd() = {raw:?} for an AsyncFd printing as descriptor {num}"));
                        }
                    } else if fd.as_fd().is_some() {
                        self.fail(format!("op{i}: as_fd() is Some for a direct descriptor"));
                    }
                    self.oracle_handout(i, k, num);
                    self.tags.insert(format!("handed-out:{}:{}", &self.ops[i].cop.tag()[3..], k.coq()));
                    self.push_handle(HObj::Fd(Box::new(fd)), false);
                    if let (true, Cop::Pipe(req)) = (self.fallback_fds.contains_key(&i), self.ops[i].cop) {
                        self.handles.last_mut().unwrap().fallback_of = Some(req);
                        self.tags.insert(format!("pipe-fallback:handed-out:requested-{}:as-{}", req.coq(), k.coq()));
                    }
                }
                if !multi {
                    self.ops[i].finished = true;
                }
            }
        }
    }

    fn do_drop_op(&mut self, i: usize) {
        let before = simk::with(|s| s.sq_pending());
        let fut = self.ops[i].fut.take();
        let r = std::panic::catch_unwind(std::panic::AssertUnwindSafe(move || drop(fut)));
        let ud = self.ops[i].ud.unwrap_or(0);
        self.note_queued(before, Queued::Cancel(i, ud));
        if r.is_err() {
            let msg = self.panic_msg();
            self.obs.push(99);
            self.fail(format!("dropping op{i} panicked: {msg}"));
        }
    }

    fn do_kcomplete(&mut self, i: usize, fd: u32, fd2: u32, more: bool) {
        let Some((req, sqe)) = self.inflight_sqe(i) else { return };
        let Some(k) = World::requested_kind(&sqe) else {
            self.fail(format!("op{i}: cannot tell which table the request allocates from: {sqe:?}"));
            return;
        };
        // Independent of the model: the kind the builder was given is the kind the kernel is asked for.
        if let Cop::Open(k0) | Cop::Socket(k0) | Cop::Pipe(k0) = self.ops[i].cop {
            if k0 != k {
                self.fail(format!(
                    "op{i} ({}) was built with kind {} but its submission asks the kernel for a {} descriptor",
                    self.ops[i].cop.name(),
                    k0.coq(),
                    k.coq()
                ));
            }
        }
        let mut flags = 0;
        if more {
            flags |= abi::CQE_F_MORE;
        }
        let res = match sqe.opcode {
            abi::OP_PIPE => {
                unsafe { (sqe.addr as usize as *mut [i32; 2]).write([fd as i32, fd2 as i32]) };
                self.oracle_issue((fd, k), Some(i));
                self.oracle_issue((fd2, k), Some(i));
                0
            }
            abi::OP_FILES_UPDATE => {
                // The array holds the regular descriptor to install; the allocated slot is
                // written back over it.
                let src = unsafe { (sqe.addr as usize as *const i32).read() };
                if let Cop::ToDirect(h) = self.ops[i].cop {
                    if src as i128 != self.handles[h].num as i128 {
                        self.fail(format!("to_direct_descriptor on descriptor {} passed {src} to the kernel", self.handles[h].num));
                    }
                }
                unsafe { (sqe.addr as usize as *mut i32).write(fd as i32) };
                self.oracle_issue((fd, k), Some(i));
                1
            }
            _ => {
                self.oracle_issue((fd, k), Some(i));
                fd as i32
            }
        };
        simk::with(|s| s.complete(req, res, flags));
        self.ops[i].posted += 1;
        let _ = self.drain();
    }

    fn do_kfail(&mut self, i: usize, e: i32) {
        let Some((req, _)) = self.inflight_sqe(i) else { return };
        simk::with(|s| s.complete(req, -e, 0));
        self.ops[i].posted += 1;
        let _ = self.drain();
    }

    /// The kernel does not know IORING_OP_PIPE: `-EINVAL`, nothing is created.
    fn do_kpipe_inval(&mut self, i: usize) {
        let Some((req, sqe)) = self.inflight_sqe(i) else { return };
        if sqe.opcode != abi::OP_PIPE {
            return;
        }
        simk::with(|s| s.complete(req, -libc::EINVAL, 0));
        self.ops[i].posted += 1;
        self.ops[i].inval = true;
        if let Cop::Pipe(k) = self.ops[i].cop {
            self.tags.insert(format!("pipe-fallback:refused:requested-{}", k.coq()));
        }
        let _ = self.drain();
    }

    fn ring_poll_once(&mut self) {
        let ring = self.ring.as_mut().unwrap();
        let r = std::panic::catch_unwind(std::panic::AssertUnwindSafe(|| ring.poll(Some(Duration::ZERO))));
        match r {
            Err(_) => {
                let msg = self.panic_msg();
                self.obs.push(99);
                self.fail(format!("Ring::poll panicked: {msg}"));
            }
            Ok(Err(e)) => self.fail(format!("Ring::poll failed: {e}")),
            Ok(Ok(())) => {}
        }
    }

    fn do_ring_poll(&mut self) {
        self.ring_poll_once();
        let close_reqs = self.drain();
        if !close_reqs.is_empty() {
            // IORING_OP_CLOSE finishes at once in the kernel: complete it and let a10 see it.
            // One in four reports EINTR: the file's flush was interrupted (NFS, FUSE, ...). As with
            // close(2) the descriptor is closed all the same, so the request must not be issued
            // again (the number may belong to somebody else by then).
            for r in close_reqs {
                let ud = simk::with(|s| s.inflight.iter().find(|q| q.req == r).map(|q| q.sqe.user_data));
                let c = self.closes.iter().position(|c| c.ud.is_some() && c.ud == ud);
                let intr = c.is_some() && (self.obs.len() + r as usize) % 4 == 0;
                if let (true, Some(c)) = (intr, c) {
                    self.closes[c].interrupted = true;
                    self.tags.insert("close-op-answered-EINTR".into());
                }
                simk::with(|s| s.complete(r, if intr { -libc::EINTR } else { 0 }, 0));
            }
            self.ring_poll_once();
            let again = self.drain();
            if !again.is_empty() {
                self.fail("submissions were consumed while completions were waiting".into());
            }
        }
        let _ = self.wakes.take();
        for o in self.ops.iter_mut() {
            o.avail += o.posted;
            o.posted = 0;
        }
    }

    fn do_drop_fd(&mut self, h: usize) {
        if let (Some(req), true) = (self.handles[h].fallback_of, self.handles[h].obj.is_some() && !self.borrowed(h)) {
            let how = if self.room() { "queue-room" } else { "queue-full" };
            self.tags.insert(format!("pipe-fallback-fd:requested-{}:drop:{how}", req.coq()));
        }
        let before = simk::with(|s| s.sq_pending());
        let obj = self.handles[h].obj.take();
        // One drop in three: should the drop fall back to close(2) (queue full), that call is
        // interrupted by a signal — the descriptor is closed all the same and must not be closed
        // again (the number may belong to somebody else by then).
        let intr = (self.obs.len() + h) % 3 == 0;
        if intr {
            simk::set_close_eintr(1);
        }
        let r = std::panic::catch_unwind(std::panic::AssertUnwindSafe(move || drop(obj)));
        if intr {
            simk::set_close_eintr(0);
        }
        self.note_queued(before, Queued::CloseBg);
        if r.is_err() {
            let msg = self.panic_msg();
            self.obs.push(99);
            self.fail(format!("dropping fd{h} panicked: {msg}"));
        }
    }

    fn do_close_fd(&mut self, h: usize) {
        let Some(HObj::Fd(b)) = self.handles[h].obj.take() else { return };
        if let Some(req) = self.handles[h].fallback_of {
            self.tags.insert(format!("pipe-fallback-fd:requested-{}:close()", req.coq()));
        }
        let desc = (self.handles[h].num, self.handles[h].kind);
        let before = simk::with(|s| s.sq_pending());
        let fut = Box::pin((*b).close());
        if self.note_queued(before, Queued::CloseBg) {
            // Not expected (close() takes the value apart without running its destructor); the
            // kernel-side oracle judges what the submission does.
            self.tags.insert("close()-queued-a-submission".into());
        }
        self.closes.push(CloseSt { fut: Some(fut), ud: None, desc, submitted: false, finished: false, interrupted: false });
    }

    fn do_poll_close(&mut self, c: usize) {
        let before = simk::with(|s| s.sq_pending());
        let waker = self.wakes.waker(1000 + c as u64);
        let Some(fut) = self.closes[c].fut.as_mut() else { return };
        let r = std::panic::catch_unwind(std::panic::AssertUnwindSafe(|| poll_once(fut.as_mut(), &waker)));
        if self.note_queued(before, Queued::CloseOp(c)) {
            let ud = simk::with(|s| s.pending_sqes().last().map(|q| q.user_data));
            self.forget_ud(ud);
            self.closes[c].ud = ud;
            self.closes[c].submitted = true;
        }
        match r {
            Err(_) => {
                let msg = self.panic_msg();
                self.obs.push(99);
                std::mem::forget(self.closes[c].fut.take());
                self.fail(format!("polling close{c} panicked: {msg}"));
            }
            Ok(Poll::Pending) => self.obs.push(10),
            Ok(Poll::Ready(Ok(()))) => {
                self.obs.push(14);
                self.closes[c].finished = true;
            }
            // The descriptor is closed, the caller is told about the interruption: for the
            // descriptor accounting (and the model) the close future has finished.
            Ok(Poll::Ready(Err(e))) if self.closes[c].interrupted && e.raw_os_error() == Some(libc::EINTR) => {
                self.obs.push(14);
                self.closes[c].finished = true;
                self.tags.insert("close-future-returned-EINTR".into());
            }
            Ok(Poll::Ready(Err(e))) => {
                self.obs.extend([12, -(e.raw_os_error().unwrap_or(99_999) as i128)]);
                self.closes[c].finished = true;
            }
        }
    }

    fn do_drop_close(&mut self, c: usize) {
        if !self.closes[c].submitted {
            // Nothing was ever submitted for it.
            let d = self.closes[c].desc;
            if let Some(info) = self.ktab.get_mut(&d) {
                info.close_never_started = true;
            }
        }
        let before = simk::with(|s| s.sq_pending());
        let fut = self.closes[c].fut.take();
        let r = std::panic::catch_unwind(std::panic::AssertUnwindSafe(move || drop(fut)));
        let ud = self.closes[c].ud.unwrap_or(0);
        self.note_queued(before, Queued::CancelClose(c, ud));
        if r.is_err() {
            let msg = self.panic_msg();
            self.obs.push(99);
            self.fail(format!("dropping close{c} panicked: {msg}"));
        }
    }

    fn exec(&mut self, ev: &Event) {
        self.obs.push(1);
        match ev {
            Event::Adopt(fd) => self.do_adopt(*fd),
            Event::Std(n) => self.do_std(*n),
            Event::NewOp(c) => self.do_new_op(*c),
            Event::PollOp(i) => self.do_poll_op(*i),
            Event::DropOp(i) => self.do_drop_op(*i),
            Event::KComplete(i, a, b, m) => self.do_kcomplete(*i, *a, *b, *m),
            Event::KFail(i, e) => self.do_kfail(*i, *e),
            Event::KPipeInval(i, _, _) => self.do_kpipe_inval(*i),
            Event::RingPoll => {
                self.do_ring_poll();
                return;
            }
            Event::DropFd(h) => self.do_drop_fd(*h),
            Event::CloseFd(h) => self.do_close_fd(*h),
            Event::PollClose(c) => self.do_poll_close(*c),
            Event::DropClose(c) => self.do_drop_close(*c),
        }
        let stray = self.drain();
        if !stray.is_empty() {
            self.fail("the kernel consumed submissions outside Ring::poll".into());
        }
    }

    // ---- generation -----------------------------------------------------------------------------

    fn live_handles(&self) -> Vec<usize> {
        (0..self.handles.len()).filter(|&h| self.handles[h].obj.is_some()).collect()
    }

    fn gen_event(&mut self, r: &mut Rng, weights: &[u64; 12]) -> Event {
        let live = self.live_handles();
        let droppable: Vec<usize> = live.iter().copied().filter(|&h| !self.borrowed(h)).collect();
        let closable: Vec<usize> = droppable.iter().copied().filter(|&h| !self.handles[h].std).collect();
        let pollable: Vec<usize> = (0..self.ops.len()).filter(|&i| self.ops[i].fut.is_some() && !self.ops[i].finished).collect();
        let op_droppable: Vec<usize> = (0..self.ops.len()).filter(|&i| self.ops[i].fut.is_some()).collect();
        let inflight: Vec<usize> = (0..self.ops.len()).filter(|&i| self.inflight_sqe(i).is_some()).collect();
        let close_pollable: Vec<usize> = (0..self.closes.len()).filter(|&c| self.closes[c].fut.is_some() && !self.closes[c].finished).collect();
        let close_droppable: Vec<usize> = (0..self.closes.len()).filter(|&c| self.closes[c].fut.is_some()).collect();
        // Half of the time move one operation one step further along its life, so that
        // descriptors do get created, handed out, converted and closed.
        let guided = r.below(100);
        if guided < 40 && !pollable.is_empty() {
            let i = *r.pick(&pollable);
            let o = &self.ops[i];
            let queued = self.shadow.iter().any(|q| matches!(q, Queued::Create(j) if *j == i));
            if !o.started || o.avail > 0 {
                return Event::PollOp(i);
            } else if o.posted > 0 || queued {
                return Event::RingPoll;
            } else if self.inflight_sqe(i).is_some() {
                if let Some(ev) = self.gen_kcomplete(r, i, false) {
                    return ev;
                }
            } else {
                return Event::PollOp(i);
            }
        } else if guided < 50 && !close_pollable.is_empty() {
            let c = *r.pick(&close_pollable);
            let queued = self.shadow.iter().any(|q| matches!(q, Queued::CloseOp(j) if *j == c));
            return if queued { Event::RingPoll } else { Event::PollClose(c) };
        }
        let mut choice = r.below(weights.iter().sum());
        let mut kind = 0;
        for (k, w) in weights.iter().enumerate() {
            if choice < *w {
                kind = k;
                break;
            }
            choice -= w;
        }
        match kind {
            0 => {
                if let Some(fd) = self.lowest_free(K::Regular, None) {
                    return Event::Adopt(fd);
                }
            }
            1 => return Event::Std(r.below(3) as u32),
            2 => {
                let any_kind = |r: &mut Rng, nslots: u32| {
                    if nslots > 0 {
                        if r.chance(1, 2) { K::Direct } else { K::Regular }
                    } else if r.chance(1, 12) {
                        K::Direct
                    } else {
                        K::Regular
                    }
                };
                let regs: Vec<usize> = live.iter().copied().filter(|&h| self.handles[h].kind == K::Regular).collect();
                let dirs: Vec<usize> = live.iter().copied().filter(|&h| self.handles[h].kind == K::Direct).collect();
                let mut options: Vec<u8> = vec![0, 0, 1, 1, 2, 2];
                if !live.is_empty() {
                    options.extend([3, 4]);
                }
                if !dirs.is_empty() {
                    options.extend([3, 4, 6, 6]);
                }
                if !regs.is_empty() && self.nslots > 0 {
                    options.extend([5, 5]);
                }
                let listener = |r: &mut Rng| {
                    if !dirs.is_empty() && r.chance(1, 2) { *r.pick(&dirs) } else { *r.pick(&live) }
                };
                let cop = match *r.pick(&options) {
                    0 => Cop::Open(any_kind(r, self.nslots)),
                    1 => Cop::Socket(any_kind(r, self.nslots)),
                    2 => Cop::Pipe(any_kind(r, self.nslots)),
                    3 => Cop::Accept(listener(r)),
                    4 => Cop::Multi(listener(r)),
                    5 => Cop::ToDirect(*r.pick(&regs)),
                    _ => Cop::ToFd(*r.pick(&dirs)),
                };
                return Event::NewOp(cop);
            }
            3 if !pollable.is_empty() => return Event::PollOp(*r.pick(&pollable)),
            4 if !op_droppable.is_empty() => return Event::DropOp(*r.pick(&op_droppable)),
            5 | 6 if !inflight.is_empty() => {
                let i = *r.pick(&inflight);
                if let Some(ev) = self.gen_kcomplete(r, i, kind == 6) {
                    return ev;
                }
            }
            7 => return Event::RingPoll,
            8 if !droppable.is_empty() => return Event::DropFd(*r.pick(&droppable)),
            9 if !closable.is_empty() => return Event::CloseFd(*r.pick(&closable)),
            10 if !close_pollable.is_empty() => return Event::PollClose(*r.pick(&close_pollable)),
            11 if !close_droppable.is_empty() => return Event::DropClose(*r.pick(&close_droppable)),
            _ => {}
        }
        Event::RingPoll
    }

    /// A kernel completion for in-flight creator `i`: the lowest free number(s) of the table the
    /// submission asks for, or an error when asked to fail / nothing is free.
    fn gen_kcomplete(&self, r: &mut Rng, i: usize, fail: bool) -> Option<Event> {
        let (_, sqe) = self.inflight_sqe(i)?;
        let multi = matches!(self.ops[i].cop, Cop::Multi(_));
        let k = World::requested_kind(&sqe);
        let pair = sqe.opcode == abi::OP_PIPE;
        if pair && r.chance(1, 2) {
            // A kernel without IORING_OP_PIPE; what pipe2(2) returns is filled in afterwards.
            return Some(Event::KPipeInval(i, 0, 0));
        }
        let a = k.and_then(|k| self.lowest_free(k, None));
        let b = if pair { k.and_then(|k| self.lowest_free(k, a)) } else { Some(0) };
        if fail || a.is_none() || b.is_none() {
            let e = if a.is_none() || b.is_none() { if self.nslots == 0 { 6 } else { 23 } } else { *r.pick(&[24, 23, 13, 104]) };
            return Some(Event::KFail(i, e));
        }
        Some(Event::KComplete(i, a.unwrap(), b.unwrap(), multi && r.chance(3, 4)))
    }

    fn room(&self) -> bool {
        simk::with(|s| s.sq_pending() < s.sq_entries)
    }

    /// Orderly end of a history: take every result that has arrived, drop every future and
    /// every descriptor, and let the ring consume its queue.
    fn wind_down(&mut self, events: &mut Vec<Event>) {
        let mut run = |w: &mut World, e: Event| {
            w.exec(&e);
            events.push(e);
        };
        run(self, Event::RingPoll);
        for i in 0..self.ops.len() {
            if self.ops[i].fut.is_none() {
                continue;
            }
            if self.ops[i].started {
                let mut guard = 0;
                while !self.ops[i].finished && guard < 64 {
                    run(self, Event::PollOp(i));
                    guard += 1;
                    if self.last_poll == 10 || self.last_poll == 99 {
                        break;
                    }
                }
            }
            run(self, Event::DropOp(i));
        }
        for c in 0..self.closes.len() {
            if self.closes[c].fut.is_none() {
                continue;
            }
            if !self.closes[c].submitted {
                if !self.room() {
                    run(self, Event::RingPoll);
                }
                run(self, Event::PollClose(c));
            }
            run(self, Event::DropClose(c));
        }
        for h in 0..self.handles.len() {
            if self.handles[h].obj.is_some() {
                run(self, Event::DropFd(h));
            }
        }
        run(self, Event::RingPoll);
        run(self, Event::RingPoll);
    }
}

fn register_fake_fds() {
    static ONCE: Once = Once::new();
    ONCE.call_once(|| {
        for fd in REG_BASE..REG_BASE + REG_POOL {
            simk::add_fake_fd(fd as i32);
        }
        // A close(2) of a standard stream is to be reported, not carried out on the harness.
        for fd in 0..3 {
            simk::add_fake_fd(fd);
        }
    });
}

const PROFILES: [[u64; 12]; 4] = [
    // adopt std newop pollop dropop kcomplete kfail ringpoll dropfd closefd pollclose dropclose
    [2, 1, 8, 10, 3, 9, 1, 6, 6, 3, 4, 2],
    // many descriptors dropped with little polling of the ring: queue-full fallbacks
    [4, 1, 8, 10, 2, 10, 1, 2, 10, 3, 3, 1],
    // futures abandoned
    [2, 1, 9, 6, 7, 9, 1, 5, 4, 2, 2, 1],
    // explicit closes
    [3, 1, 7, 9, 2, 8, 1, 5, 3, 8, 7, 4],
];

fn one_case(r: &mut Rng, silent: &Arc<Mutex<Option<String>>>) -> Case {
    register_fake_fds();
    let _ = simk::take_closes();
    let cap = *r.pick(&[1u32, 1, 2, 2, 4]);
    let nslots = *r.pick(&[0u32, 2, 4, 4, 8]);
    let profile = r.below(PROFILES.len() as u64) as usize;
    let n_events = r.range(6, 40) as usize;
    simk::configure(simk::SetupConfig { sq_start: r.next() as u32, cq_start: r.next() as u32, ..Default::default() });
    let mut cfg = a10::Ring::config().with_submission_queue_size(cap).with_completion_queue_size(256);
    if nslots > 0 {
        cfg = cfg.with_direct_descriptors(nslots);
    }
    let mut ring = cfg.build().expect("ring on the simulated kernel");
    let ring_fd = simk::with(|s| {
        s.default_cancelable = false;
        s.fd
    });
    let sq = ring.sq();
    // One history in eight starts with an accept whose address type does not fit what the kernel
    // reports (accept::<SocketAddrV4>() and an address of 28 bytes): the conversion of the address
    // may panic (a debug assertion) or return nonsense, but the descriptor the kernel delivered is
    // owned by then and is closed exactly once, come what may. Done before the modelled history.
    let mut preamble: Option<String> = None;
    let mut did_preamble = false;
    if r.chance(1, 8) {
        did_preamble = true;
        const LISTENER: i32 = 7_000_000;
        const ACCEPTED: i32 = 7_000_001;
        simk::add_fake_fd(LISTENER);
        simk::add_fake_fd(ACCEPTED);
        let lfd = unsafe { AsyncFd::from_raw_fd(LISTENER, sq.clone()) };
        let waker = std::task::Waker::noop();
        {
            let mut fut = Box::pin(lfd.accept::<std::net::SocketAddrV4>());
            let mut ctx = std::task::Context::from_waker(waker);
            let _ = fut.as_mut().poll(&mut ctx);
            let _ = ring.poll(Some(Duration::ZERO));
            let done = simk::with(|s| {
                let q = s.inflight.iter().find(|q| q.sqe.fd == LISTENER).map(|q| (q.req, q.sqe.off))?;
                // The kernel writes the address length it used into the cell `addr2` points at.
                unsafe { (q.1 as usize as *mut u32).write(28) };
                s.complete(q.0, ACCEPTED, 0);
                Some(())
            });
            let _ = ring.poll(Some(Duration::ZERO));
            let res = std::panic::catch_unwind(std::panic::AssertUnwindSafe(|| fut.as_mut().poll(&mut ctx)));
            let _ = silent.lock().unwrap().take();
            if done.is_none() {
                preamble = Some("the accept of the preamble never reached the kernel".into());
            }
            // Whatever came out (a socket with a nonsense address, or a panic) is dropped here.
            drop(res);
            let _ = std::panic::catch_unwind(std::panic::AssertUnwindSafe(move || drop(fut)));
        }
        let _ = ring.poll(Some(Duration::ZERO));
        let by_sqe = simk::with(|s| s.take_log()).iter().filter(|e| matches!(e, Ev::Consumed { sqe, .. } if sqe.opcode == abi::OP_CLOSE && sqe.fd == ACCEPTED && sqe.file_index == 0)).count();
        let by_call = simk::take_closes().iter().filter(|fd| **fd == ACCEPTED).count();
        if by_sqe + by_call != 1 && preamble.is_none() {
            preamble = Some(format!(
                "accept::<SocketAddrV4>() completed with descriptor {ACCEPTED} and a 28-byte address: the descriptor was closed {} times (expected once: it is owned by an AsyncFd before the address is converted, whatever the conversion does)",
                by_sqe + by_call
            ));
        }
        drop(lfd);
        let _ = ring.poll(Some(Duration::ZERO));
        let _ = simk::take_closes();
    }
    let _ = simk::with(|s| s.take_log());
    let mut w = World {
        ring: Some(ring),
        sq: Some(sq),
        nslots,
        handles: Vec::new(),
        ops: Vec::new(),
        closes: Vec::new(),
        wakes: WakeLog::default(),
        obs: Vec::new(),
        silent: silent.clone(),
        shadow: Default::default(),
        ktab: BTreeMap::new(),
        violation: None,
        issued: 0,
        closed_ok: 0,
        ever: BTreeSet::new(),
        tags: BTreeSet::new(),
        last_poll: 0,
        fallback_fds: BTreeMap::new(),
        base_fds: open_fds(),
    };
    if let Some(m) = preamble {
        w.fail(m);
    }
    if did_preamble {
        w.tags.insert("preamble:accept-with-mismatching-address-type".into());
    }
    let mut events: Vec<Event> = Vec::new();
    for _ in 0..n_events {
        if w.violation.is_some() {
            break;
        }
        let ev = w.gen_event(r, &PROFILES[profile]);
        w.exec(&ev);
        events.push(ev);
    }
    if w.violation.is_none() {
        w.wind_down(&mut events);
    }
    // What pipe2(2) returned is known now: complete the refusal events.
    for e in events.iter_mut() {
        if let Event::KPipeInval(i, a, b) = e {
            match w.fallback_fds.get(i) {
                Some((x, y)) => (*a, *b) = (*x, *y),
                None => {
                    let req = match w.ops[*i].cop {
                        Cop::Pipe(k) => k.coq(),
                        _ => "?",
                    };
                    w.tags.insert(format!("pipe-fallback:no-pipe2(future-gone):requested-{req}"));
                }
            }
        }
    }
    // The process descriptor table against the oracle's table: every process descriptor that
    // appeared during the history is one the oracle knows as open (a regular descriptor made by
    // pipe2(2)), and every one it knows as open is open.
    if w.violation.is_none() {
        let now = open_fds();
        let appeared: Vec<i32> = now.iter().copied().filter(|fd| !w.base_fds.contains(fd)).collect();
        for fd in appeared {
            if !w.ktab.contains_key(&(fd as u32, K::Regular)) {
                w.fail(format!("process descriptor {fd} is open at the end of the history and the kernel-side table does not have it: it was closed the wrong way (as another kind / number) or never handed to anybody"));
            }
        }
        let real: Vec<u32> = w.fallback_fds.values().flat_map(|(a, b)| [*a, *b]).collect();
        for n in real {
            if w.ktab.contains_key(&(n, K::Regular)) && !now.contains(&(n as i32)) {
                w.fail(format!("process descriptor {n} (pipe2 fallback) is closed in the process although no close of it was seen"));
            }
        }
    }

    // ---- the oracle's verdict: what is still open in the kernel's table, with the ring alive --------
    let mut known: Option<String> = None;
    let mut leak_msg: Option<String> = None;
    let mut unknown_leak: Option<String> = None;
    for (d, info) in w.ktab.iter() {
        let what = format!("{} descriptor {}", d.1.coq(), d.0);
        if !info.handed {
            let i = info.op.unwrap_or(usize::MAX);
            let gone = w.ops.get(i).is_some_and(|o| o.fut.is_none());
            if gone {
                w.tags.insert("h12:delivered-to-abandoned-op".into());
                if known.is_none() {
                    known = Some("fd-delivered-to-abandoned-op".into());
                    leak_msg = Some(format!("{what}, returned by the kernel for op{i} ({}), was never wrapped in an AsyncFd (its future was dropped before taking the result) and nothing closes it", w.ops[i].cop.name()));
                }
            } else if unknown_leak.is_none() {
                unknown_leak = Some(format!("{what} was returned by the kernel for op{i} but never handed out"));
            }
        } else if info.close_never_started {
            w.tags.insert("h19:close-future-never-started".into());
            if known.is_none() {
                known = Some("close-future-never-started".into());
                leak_msg = Some(format!("{what}: close() was called on its AsyncFd and the returned future dropped before it submitted anything; nothing closes it"));
            }
        } else if unknown_leak.is_none() {
            unknown_leak = Some(format!("{what} is still open after its AsyncFd was dropped and the ring consumed its queue: never closed"));
        }
    }
    let (mut oracle, known) = match (w.violation.take(), unknown_leak) {
        (Some(v), _) => (Some(v), None),
        (None, Some(l)) => (Some(l), None),
        (None, None) => (leak_msg, known),
    };

    // ---- teardown ------------------------------------------------------------------------------
    for o in w.ops.iter_mut() {
        let fut = o.fut.take();
        let _ = std::panic::catch_unwind(std::panic::AssertUnwindSafe(move || drop(fut)));
    }
    for c in w.closes.iter_mut() {
        let fut = c.fut.take();
        let _ = std::panic::catch_unwind(std::panic::AssertUnwindSafe(move || drop(fut)));
    }
    for h in w.handles.iter_mut() {
        let obj = h.obj.take();
        let _ = std::panic::catch_unwind(std::panic::AssertUnwindSafe(move || drop(obj)));
    }
    w.sq = None;
    let ring = w.ring.take();
    let _ = std::panic::catch_unwind(std::panic::AssertUnwindSafe(move || drop(ring)));
    // Every holder of the ring's shared state is gone now (the Ring, the SubmissionQueue clones, the
    // AsyncFds, the operation and close futures): the last one closes the ring's descriptor.
    // `close(self)` must hand the AsyncFd's SubmissionQueue over to the future, not copy it.
    if unsafe { libc::fcntl(ring_fd, libc::F_GETFD) } != -1 && oracle.is_none() && w.violation.is_none() {
        oracle = Some(format!(
            "the Ring, every SubmissionQueue clone, every AsyncFd and every future of the history are dropped, but the ring's descriptor is still open (and its submission queue mapped): a reference to the ring's shared state was leaked ({} explicit close() calls in the history)",
            w.closes.len()
        ));
    }
    simk::retire(ring_fd);
    let _ = simk::take_closes();
    // Real descriptors nothing closed (known findings, or a violation): not to be inherited by
    // the next history of this worker.
    for fd in simk::take_real_fds() {
        unsafe { libc::close(fd) };
    }

    let mut coq = format!("{{| fc_cap := {cap}%N; fc_nslots := {nslots}%N; fc_events := [");
    let mut json = format!("{{\"sq_entries\":{cap},\"direct_slots\":{nslots},\"events\":[");
    for (i, e) in events.iter().enumerate() {
        if i > 0 {
            coq.push_str("; ");
            json.push(',');
        }
        coq.push_str(&coq_event(e));
        json.push_str(&json_event(e, &w.ops));
    }
    coq.push_str("] |}");
    json.push_str("]}");
    let mut tags: Vec<String> = w.tags.iter().cloned().collect();
    tags.push(format!("sq:{cap}"));
    tags.push(format!("direct-slots:{nslots}"));
    if w.obs.contains(&30) {
        tags.push("fallback:close(2)".into());
    }
    if w.obs.contains(&31) {
        tags.push("fallback:files-update".into());
    }
    for e in &events {
        tags.push(
            match e {
                Event::Adopt(_) => "ev:from_raw_fd",
                Event::Std(_) => "ev:std-stream",
                Event::CloseFd(_) => "ev:close()",
                Event::DropClose(_) => "ev:drop-close-future",
                Event::DropOp(_) => "ev:drop-creator",
                Event::KFail(..) => "ev:kernel-error",
                Event::KPipeInval(..) => "ev:pipe-refused-einval",
                _ => continue,
            }
            .into(),
        );
    }
    tags.sort();
    tags.dedup();
    let nontrivial = w.issued >= 1 && w.closed_ok >= 1;
    Case { coq, obs: w.obs, json, oracle, known, tags, nontrivial }
}

pub fn run(args: &Args) -> i32 {
    simk::install();
    let silent: Arc<Mutex<Option<String>>> = Arc::new(Mutex::new(None));
    let s2 = silent.clone();
    std::panic::set_hook(Box::new(move |info| {
        *s2.lock().unwrap() = Some(info.to_string());
    }));
    let n = args.n.unwrap_or(if args.thorough { 40_000 } else { 3_000 });
    let root = Rng::new(args.seed ^ 0xC07);
    let cases = out::run_forked(&args.out, n, 12, &|i| {
        let mut r = root.fork(i as u64);
        one_case(&mut r, &silent)
    });
    let _ = std::panic::take_hook();
    let spec = Spec { prop: "C07", imports: &["Model.FdTable"], run_fn: "run_fdcase", case_ty: "fdcase", shard: 250 };
    out::write_all(&args.out, &spec, &cases, &[]);
    0
}

//! C05 — completions consumed exactly once, in order, wrap-safe; internal ones ignored.
//!
//! Real `Ring::poll` on a simulated ring. Operations are real `write` futures held in flight;
//! the script posts their completions (each with its own result value) in any order and
//! batching, mixed with bookkeeping completions (user_data 0–3, IORING_CQE_F_SKIP entries whose
//! user_data points at a trap), between polls and — through hook B — in the middle of a poll.

use std::fmt::Write as _;
use std::future::Future;
use std::mem::ManuallyDrop;
use std::pin::Pin;
use std::sync::{Arc, Mutex};
use std::task::Poll;
use std::time::Duration;

use crate::out::{self, Case, Spec};
use crate::rng::Rng;
use crate::simk::{self, abi, Ev};
use crate::util::{poll_once, res_code, WakeLog};
use crate::{sched, Args};

#[derive(Clone, Debug)]
enum CqeSpec {
    Op { op: usize, res: i32 },
    Internal { ud: u64, res: i32, fl: u32 },
    Skip { id: usize, res: i32, fl: u32 },
}

#[derive(Clone, Debug)]
enum Action {
    Post(Vec<CqeSpec>),
    Poll { during: Vec<(usize, Vec<CqeSpec>)>, at_end: Vec<CqeSpec> },
    /// A `Ring::poll` whose `io_uring_enter` (made only when the poll finds the queue empty) posts
    /// these completions and then fails with this errno; when the poll does not enter the kernel
    /// the completions are posted right after it.
    PollErr { posted: Vec<CqeSpec>, errno: i32 },
}

fn canon_ud(spec: &CqeSpec) -> u64 {
    match spec {
        CqeSpec::Op { op, .. } => 1000 + 8 * *op as u64,
        CqeSpec::Internal { ud, .. } => *ud,
        CqeSpec::Skip { id, .. } => 200_000 + 8 * *id as u64,
    }
}

fn coq_cqe(spec: &CqeSpec) -> String {
    let (res, fl) = match spec {
        CqeSpec::Op { res, .. } => (*res, 0),
        CqeSpec::Internal { res, fl, .. } | CqeSpec::Skip { res, fl, .. } => (*res, *fl),
    };
    let r = if res < 0 { format!("({res})") } else { res.to_string() };
    format!("{{| ud := {}%N; res := {r}; fl := {fl}%N |}}", canon_ud(spec))
}

fn coq_list(specs: &[CqeSpec]) -> String {
    let mut s = String::from("[");
    for (i, c) in specs.iter().enumerate() {
        if i > 0 {
            s.push_str("; ");
        }
        s.push_str(&coq_cqe(c));
    }
    s.push(']');
    s
}

fn coq_action(a: &Action) -> String {
    match a {
        Action::Post(cs) => format!("Post {}", coq_list(cs)),
        Action::Poll { during, at_end } => {
            let mut s = String::from("Poll [");
            for (i, (k, cs)) in during.iter().enumerate() {
                if i > 0 {
                    s.push_str("; ");
                }
                let _ = write!(s, "({k}%N, {})", coq_list(cs));
            }
            let _ = write!(s, "] {}", coq_list(at_end));
            s
        }
        Action::PollErr { posted, errno } => format!("PollErr {} {errno}", coq_list(posted)),
    }
}

fn json_specs(specs: &[CqeSpec]) -> String {
    let mut s = String::from("[");
    for (i, c) in specs.iter().enumerate() {
        if i > 0 {
            s.push(',');
        }
        match c {
            CqeSpec::Op { op, res } => {
                let _ = write!(s, "\"op{op}={res}\"");
            }
            CqeSpec::Internal { ud, res, fl } => {
                let _ = write!(s, "\"internal(ud={ud},res={res},flags={fl})\"");
            }
            CqeSpec::Skip { id, res, fl } => {
                let _ = write!(s, "\"skip{id}(res={res},flags={fl})\"");
            }
        }
    }
    s.push(']');
    s
}

/// Memory a wrongly dispatched F_SKIP entry would be interpreted as: zeroed (an unlocked,
/// unpoisoned mutex followed by zeroes), never freed.
fn trap_addr() -> u64 {
    static TRAP: std::sync::OnceLock<usize> = std::sync::OnceLock::new();
    *TRAP.get_or_init(|| {
        let b: Box<[u64; 64]> = Box::new([0; 64]);
        Box::leak(b).as_ptr() as usize
    }) as u64
}

struct World {
    op_uds: Vec<u64>,
    /// Everything actually posted, in order: (spec, posted).
    posted: Vec<CqeSpec>,
}

fn cqe_of(w: &World, spec: &CqeSpec) -> abi::Cqe {
    match spec {
        CqeSpec::Op { op, res } => abi::Cqe { user_data: w.op_uds[*op], res: *res, flags: 0 },
        CqeSpec::Internal { ud, res, fl } => abi::Cqe { user_data: *ud, res: *res, flags: *fl },
        CqeSpec::Skip { res, fl, .. } => abi::Cqe { user_data: trap_addr(), res: *res, flags: *fl },
    }
}

fn post_specs(world: &Arc<Mutex<World>>, specs: &[CqeSpec]) {
    let mut w = world.lock().unwrap();
    for spec in specs {
        let cqe = cqe_of(&w, spec);
        simk::with(|s| {
            if let CqeSpec::Op { .. } = spec {
                // Keep the in-flight table in step: this request is finished.
                if let Some(req) = s.find_req_by_user_data(cqe.user_data) {
                    s.inflight.retain(|r| r.req != req);
                }
            }
            s.post(cqe)
        });
        w.posted.push(spec.clone());
    }
}

const START_POOL: [u32; 10] = [0, 1, 0x7FFF_FFFE, 0x7FFF_FFFF, 0x8000_0000, u32::MAX - 4, u32::MAX - 3, u32::MAX - 2, u32::MAX - 1, u32::MAX];
const SAFE_ERR: [i32; 5] = [-5 /*EIO*/, -9 /*EBADF*/, -32 /*EPIPE*/, -11 /*EAGAIN*/, -28 /*ENOSPC*/];

fn gen_internal(r: &mut Rng, skip_id: &mut usize) -> CqeSpec {
    match r.below(6) {
        0 => CqeSpec::Internal { ud: 0, res: *r.pick(&[0, -5, 7]), fl: 0 },
        1 => CqeSpec::Internal { ud: 1, res: 0, fl: *r.pick(&[0, 2]) },
        2 => CqeSpec::Internal { ud: 2, res: *r.pick(&[-2, -114, -22, 0]), fl: 0 },
        3 => CqeSpec::Internal { ud: 3, res: *r.pick(&[-9, -5]), fl: 0 },
        _ => {
            *skip_id += 1;
            CqeSpec::Skip { id: *skip_id, res: *r.pick(&[0, -1, 12345]), fl: abi::CQE_F_SKIP | *r.pick(&[0, 2, 1 << 16]) }
        }
    }
}

fn one_case(r: &mut Rng, silent_panic: &Arc<Mutex<Option<String>>>) -> Case {
    let cq_len: u32 = *r.pick(&[1, 2, 2, 4, 4, 8, 16]);
    let sq_len: u32 = (*r.pick(&[1u32, 2, 4])).min(cq_len);
    let cq_start = if r.chance(2, 3) { *r.pick(&START_POOL) } else { r.next() as u32 };
    let n_ops = r.range(1, 20) as usize;
    let n_actions = r.range(1, 10) as usize;

    simk::configure(simk::SetupConfig { cq_start, sq_start: r.next() as u32, ..Default::default() });
    let mut ring = a10::Ring::config()
        .with_submission_queue_size(sq_len)
        .with_completion_queue_size(cq_len)
        .build()
        .expect("ring on the simulated kernel");
    simk::with(|s| {
        s.poison_free_slots = true;
        assert_eq!(s.cq_entries, cq_len);
    });
    let ring_fd = simk::with(|s| s.fd);
    let fd = Box::new(unsafe { a10::AsyncFd::from_raw_fd(1000, ring.sq()) });
    let fd_ref: &'static a10::AsyncFd = unsafe { &*(&*fd as *const a10::AsyncFd) };
    let wakes = WakeLog::default();
    static DATA: &[u8] = b"0123456789abcdef";
    let mut futs: Vec<Option<Pin<Box<dyn Future<Output = std::io::Result<usize>>>>>> = Vec::new();
    let world = Arc::new(Mutex::new(World { op_uds: Vec::new(), posted: Vec::new() }));
    let mut script: Vec<Action> = Vec::new();
    let mut obs: Vec<i128> = Vec::new();
    let mut oracle: Option<String> = None;
    let mut dispatched: Vec<(usize, i128)> = Vec::new(); // (op, result) in dispatch order
    let mut tags = Vec::new();

    // Runs one `Ring::poll` with the injection plan, appends observations.
    let mut do_poll = |ring: &mut a10::Ring,
                       futs: &mut Vec<Option<Pin<Box<dyn Future<Output = std::io::Result<usize>>>>>>,
                       during: &[(usize, Vec<CqeSpec>)],
                       at_end: &[CqeSpec],
                       fail: Option<(i32, &[CqeSpec])>,
                       obs: &mut Vec<i128>,
                       oracle: &mut Option<String>,
                       dispatched: &mut Vec<(usize, i128)>| {
        let plan: Vec<(usize, Vec<CqeSpec>)> = during.to_vec();
        let end: Vec<CqeSpec> = at_end.to_vec();
        let w2 = world.clone();
        let mut locks = 0usize;
        sched::set_injector(Some(Box::new(move |point| {
            if point == a10::verif::points::LOCK {
                for (k, cs) in &plan {
                    if *k == locks {
                        post_specs(&w2, cs);
                    }
                }
                locks += 1;
            } else if point == a10::verif::points::STORE_CQ_HEAD {
                post_specs(&w2, &end);
            }
        })));
        if let Some((errno, cs)) = fail {
            let cqes: Vec<abi::Cqe> = {
                let w = world.lock().unwrap();
                cs.iter().map(|c| cqe_of(&w, c)).collect()
            };
            simk::with(|s| s.fail_next_enter = Some((errno, cqes)));
        }
        let res = std::panic::catch_unwind(std::panic::AssertUnwindSafe(|| ring.poll(Some(Duration::ZERO))));
        sched::set_injector(None);
        // Was the scripted failure used (the poll entered the kernel)?
        let mut failed_enter = false;
        if let Some((_, cs)) = fail {
            let unused = simk::with(|s| s.fail_next_enter.take());
            match unused {
                None => {
                    failed_enter = true;
                    // The kernel posted them inside the failing call: keep the books.
                    let mut w = world.lock().unwrap();
                    for spec in cs {
                        if let CqeSpec::Op { op, .. } = spec {
                            let ud = w.op_uds[*op];
                            simk::with(|s| {
                                if let Some(req) = s.find_req_by_user_data(ud) {
                                    s.inflight.retain(|r| r.req != req);
                                }
                            });
                        }
                        w.posted.push(spec.clone());
                    }
                }
                Some(_) => {}
            }
        }
        match res {
            Ok(Err(e)) if failed_enter && e.raw_os_error() == fail.map(|f| f.0) => {
                // The error is reported; nothing may have been handed out (checked below).
                obs.push(-3);
                obs.push(fail.map(|f| f.0).unwrap_or(0) as i128);
            }
            Err(_) => {
                let msg = silent_panic.lock().unwrap().take().unwrap_or_default();
                oracle.get_or_insert(format!("Ring::poll panicked: {msg}"));
                obs.push(-2);
                return false;
            }
            Ok(Err(e)) => {
                oracle.get_or_insert(format!("Ring::poll failed: {e}"));
                obs.push(-3);
                return false;
            }
            Ok(Ok(())) => {}
        }
        for id in wakes.take() {
            let op = id as usize;
            let w = wakes.waker(id);
            let out = match futs[op].as_mut() {
                Some(f) => match poll_once(f.as_mut(), &w) {
                    Poll::Ready(r) => Some(res_code(&r, |n| *n as i128)),
                    Poll::Pending => None,
                },
                None => None,
            };
            match out {
                Some(code) => {
                    futs[op] = None;
                    obs.push(1000 + 8 * op as i128);
                    obs.push(code);
                    dispatched.push((op, code));
                }
                None => {
                    oracle.get_or_insert(format!("operation {op} was woken but is not ready (or was woken twice)"));
                    obs.push(-4);
                    obs.push(op as i128);
                }
            }
        }
        let head = simk::with(|s| {
            s.check_counters();
            s.cq_head()
        });
        obs.push(-1);
        obs.push(head as i128);
        if let (Some((_, cs)), false) = (fail, failed_enter) {
            // The poll did not enter the kernel: the completions arrive right after it.
            post_specs(&world, cs);
        }
        true
    };

    // --- setup: get every operation in flight ------------------------------------------------
    let mut ok = true;
    while futs.len() < n_ops && ok {
        let batch = (sq_len as usize).min(n_ops - futs.len());
        for _ in 0..batch {
            let op = futs.len();
            let mut f: Pin<Box<dyn Future<Output = std::io::Result<usize>>>> = Box::pin(fd_ref.write(DATA));
            let w = wakes.waker(op as u64);
            if poll_once(f.as_mut(), &w).is_ready() {
                oracle.get_or_insert("write future ready before any completion".into());
            }
            futs.push(Some(f));
        }
        script.push(Action::Poll { during: vec![], at_end: vec![] });
        ok = do_poll(&mut ring, &mut futs, &[], &[], None, &mut obs, &mut oracle, &mut dispatched);
        // Learn the user_data of the operations just consumed by the kernel.
        let log = simk::with(|s| s.take_log());
        let mut w = world.lock().unwrap();
        for e in log {
            if let Ev::Consumed { sqe, req: Some(_) } = e {
                w.op_uds.push(sqe.user_data);
            }
        }
    }
    if world.lock().unwrap().op_uds.len() != futs.len() && oracle.is_none() {
        oracle = Some(format!("{} operations were started but the kernel consumed {} submissions", futs.len(), world.lock().unwrap().op_uds.len()));
        ok = false;
    }

    // --- main script ----------------------------------------------------------------------------
    let mut remaining: Vec<usize> = (0..n_ops).collect();
    let mut skip_id = 0usize;
    let mut take_specs = |r: &mut Rng, remaining: &mut Vec<usize>, max: u64| -> Vec<CqeSpec> {
        let mut v = Vec::new();
        for _ in 0..r.below(max + 1) {
            if r.chance(2, 3) && !remaining.is_empty() {
                let k = r.below(remaining.len() as u64) as usize;
                let op = remaining.swap_remove(k);
                let res = if r.chance(1, 5) { *r.pick(&SAFE_ERR) } else { (r.next() % 1_000_000) as i32 };
                v.push(CqeSpec::Op { op, res });
            } else {
                v.push(gen_internal(r, &mut skip_id));
            }
        }
        v
    };
    let mut mid_poll_posts = 0;
    let mut failing_polls = 0;
    for _ in 0..n_actions {
        if !ok {
            break;
        }
        if r.chance(1, 6) {
            // A poll whose io_uring_enter fails after the kernel posted something.
            let cs = take_specs(r, &mut remaining, 3);
            let errno = *r.pick(&[libc::EAGAIN, libc::EBUSY, libc::ENOMEM]);
            failing_polls += 1;
            script.push(Action::PollErr { posted: cs.clone(), errno });
            ok = do_poll(&mut ring, &mut futs, &[], &[], Some((errno, &cs)), &mut obs, &mut oracle, &mut dispatched);
        } else if r.chance(1, 2) {
            let cs = take_specs(r, &mut remaining, 5);
            post_specs(&world, &cs);
            script.push(Action::Post(cs));
        } else {
            let mut during = Vec::new();
            if r.chance(1, 2) {
                for _ in 0..r.range(1, 2) {
                    let k = r.below(4) as usize;
                    let cs = take_specs(r, &mut remaining, 3);
                    if !cs.is_empty() {
                        during.push((k, cs));
                    }
                }
            }
            let at_end = if r.chance(1, 3) { take_specs(r, &mut remaining, 3) } else { vec![] };
            let before = world.lock().unwrap().posted.len();
            script.push(Action::Poll { during: during.clone(), at_end: at_end.clone() });
            ok = do_poll(&mut ring, &mut futs, &during, &at_end, None, &mut obs, &mut oracle, &mut dispatched);
            let after = world.lock().unwrap().posted.len();
            mid_poll_posts += after - before;
            // Operations named in a plan that never triggered are still pending.
            let posted_ops: Vec<usize> = world.lock().unwrap().posted.iter().filter_map(|c| if let CqeSpec::Op { op, .. } = c { Some(*op) } else { None }).collect();
            for (_, cs) in &during {
                for c in cs {
                    if let CqeSpec::Op { op, .. } = c {
                        if !posted_ops.contains(op) && !remaining.contains(op) {
                            remaining.push(*op);
                        }
                    }
                }
            }
            remaining.sort_unstable();
        }
    }
    // --- drain: complete what is left, poll until everything was handed out ---------------------
    if ok {
        let cs: Vec<CqeSpec> = remaining.drain(..).map(|op| CqeSpec::Op { op, res: 7_000_000 + op as i32 }).collect();
        post_specs(&world, &cs);
        script.push(Action::Post(cs));
        let mut guard = 0;
        loop {
            let posted_ops = world.lock().unwrap().posted.iter().filter(|c| matches!(c, CqeSpec::Op { .. })).count();
            let overflow = simk::with(|s| s.overflow.len() + s.cq_ready() as usize);
            if (dispatched.len() >= posted_ops && overflow == 0) || guard > 3 * n_ops + 8 || !ok {
                break;
            }
            guard += 1;
            script.push(Action::Poll { during: vec![], at_end: vec![] });
            ok = do_poll(&mut ring, &mut futs, &[], &[], None, &mut obs, &mut oracle, &mut dispatched);
        }
    }

    // --- oracle: exactly once, in publication order, own result; counters sane ---------------------
    let w = world.lock().unwrap();
    if oracle.is_none() {
        let want: Vec<(usize, i128)> = w
            .posted
            .iter()
            .filter_map(|c| if let CqeSpec::Op { op, res } = c { Some((*op, *res as i128)) } else { None })
            .collect();
        if dispatched != want {
            let k = dispatched.iter().zip(want.iter()).take_while(|(a, b)| a == b).count();
            oracle = Some(format!(
                "completions handed to operations differ from those published: position {k}: published {:?}, handed out {:?} ({} published, {} handed out)",
                want.get(k), dispatched.get(k), want.len(), dispatched.len()
            ));
        }
    }
    let log = simk::with(|s| s.take_log());
    for e in &log {
        if let Ev::Corrupt { what } = e {
            oracle.get_or_insert(what.clone());
        }
    }
    if oracle.is_none() {
        let (h, t) = simk::with(|s| (s.cq_head(), s.cq_tail()));
        if h != t {
            oracle = Some(format!("after the final polls the published head {h} differs from the tail {t}"));
        }
    }
    let wrapped = (cq_start as u64 + w.posted.len() as u64) > u32::MAX as u64;
    tags.push(format!("cq_len:{cq_len}"));
    tags.push(format!("wraps_counter:{wrapped}"));
    tags.push(format!("mid_poll_posts:{}", mid_poll_posts.min(3)));
    tags.push(format!("polls_with_failing_enter:{}", failing_polls.min(3)));
    tags.push(format!("internal:{}", w.posted.iter().filter(|c| !matches!(c, CqeSpec::Op { .. })).count().min(5)));
    tags.push(format!("overflowed:{}", log.iter().any(|e| matches!(e, Ev::Posted { overflow: true, .. }))));
    let n_posted = w.posted.len();
    drop(w);

    // --- teardown -------------------------------------------------------------------------------
    drop(do_poll);
    futs.clear();
    drop(fd);
    let _ = std::panic::catch_unwind(std::panic::AssertUnwindSafe(move || drop(ring)));
    simk::retire(ring_fd);

    let mut coq = format!("{{| cq_len := {cq_len}%N; cq_start := {cq_start}%N; cq_script := [");
    let mut json = format!("{{\"cq_len\":{cq_len},\"sq_len\":{sq_len},\"cq_start\":{cq_start},\"ops\":{n_ops},\"script\":[");
    for (i, a) in script.iter().enumerate() {
        if i > 0 {
            coq.push_str("; ");
            json.push(',');
        }
        coq.push_str(&coq_action(a));
        match a {
            Action::Post(cs) => {
                let _ = write!(json, "{{\"post\":{}}}", json_specs(cs));
            }
            Action::Poll { during, at_end } => {
                json.push_str("{\"poll\":{\"during\":[");
                for (j, (k, cs)) in during.iter().enumerate() {
                    if j > 0 {
                        json.push(',');
                    }
                    let _ = write!(json, "{{\"before_op_entry\":{k},\"post\":{}}}", json_specs(cs));
                }
                let _ = write!(json, "],\"before_head_store\":{}}}}}", json_specs(at_end));
            }
            Action::PollErr { posted, errno } => {
                let _ = write!(json, "{{\"poll_whose_enter_fails\":{{\"errno\":{errno},\"kernel_posts_first\":{}}}}}", json_specs(posted));
            }
        }
    }
    coq.push_str("] |}");
    json.push_str("]}");
    Case { coq, obs, json, oracle, known: None, tags, nontrivial: n_posted >= 2 }
}

pub fn run(args: &Args) -> i32 {
    simk::install();
    let silent: Arc<Mutex<Option<String>>> = Arc::new(Mutex::new(None));
    let s2 = silent.clone();
    std::panic::set_hook(Box::new(move |info| {
        *s2.lock().unwrap() = Some(info.to_string());
    }));
    let n = args.n.unwrap_or(if args.thorough { 40_000 } else { 1_500 });
    let root = Rng::new(args.seed);
    let cases = out::run_forked(&args.out, n, 12, &|i| {
        let mut r = root.fork(i as u64);
        one_case(&mut r, &silent)
    });
    let _ = std::panic::take_hook();
    let spec = Spec { prop: "C05", imports: &["Model.CqRing"], run_fn: "run_cqcase", case_ty: "cqcase", shard: 500 };
    out::write_all(&args.out, &spec, &cases, &[]);
    0
}

//! C16 — socket addresses round-trip through the kernel's representation.
//!
//! Drives the real `a10::net::SocketAddress` implementations (`SocketAddrV4`, `SocketAddrV6`,
//! `SocketAddr`, `std::os::unix::net::SocketAddr`, `NoAddress`): `into_storage`, `as_ptr`,
//! `as_mut_ptr` and `init`. The harness plays the kernel: it reads exactly the bytes covered
//! by the pointer/length pair of `as_ptr`, and for the way back writes the first `len` bytes
//! of that representation into a fresh `MaybeUninit<Storage>` through the pointer of
//! `as_mut_ptr` (the rest holds a filler byte) and calls `init(storage, len)`.
//!
//! Only what the trait promises is touched: no assumption on the layout of `Storage`.

use std::fmt::Write as _;
use std::mem::MaybeUninit;
use std::net::{Ipv4Addr, Ipv6Addr, SocketAddr, SocketAddrV4, SocketAddrV6};
use std::os::linux::net::SocketAddrExt;
use std::os::unix::ffi::OsStrExt;
use std::os::unix::net::SocketAddr as UnixAddr;
use std::panic::{catch_unwind, AssertUnwindSafe};

use a10::net::{NoAddress, SocketAddress};

use crate::out::{self, Case, Spec};
use crate::rng::Rng;
use crate::Args;

/// The model the observations are compared with: `run_sacase_fixed` is the code as it is in
/// /repo (after the repairs of H7, H8 and H29); `run_sacase` is the code before them.
const RUN_FN: &str = "run_sacase_fixed";

const H7: &str = "unix-path-readback-nul";
const H8: &str = "unix-abstract-padded";

/// A socket address as plain data (mirrors `addr` of coq/Model/SockAddr.v).
#[derive(Clone, PartialEq, Eq, Debug)]
enum Addr {
    V4([u8; 4], u16),
    V6([u8; 16], u16, u32, u32),
    Unnamed,
    Path(Vec<u8>),
    Abstract(Vec<u8>),
    NoAddr,
}

#[derive(Clone, Copy, PartialEq, Eq, Debug)]
enum Impl {
    V4,
    V6,
    Either,
    Unix,
    No,
}

impl Impl {
    fn coq(self) -> &'static str {
        match self {
            Impl::V4 => "ISockAddrV4",
            Impl::V6 => "ISockAddrV6",
            Impl::Either => "ISockAddr",
            Impl::Unix => "IUnix",
            Impl::No => "INoAddress",
        }
    }
    fn ty(self) -> &'static str {
        match self {
            Impl::V4 => "SocketAddrV4",
            Impl::V6 => "SocketAddrV6",
            Impl::Either => "SocketAddr",
            Impl::Unix => "unix::net::SocketAddr",
            Impl::No => "NoAddress",
        }
    }
    /// Size of the C structure the kernel may fill for this type.
    fn family_struct(self) -> usize {
        match self {
            Impl::V4 => size_of::<libc::sockaddr_in>(),
            Impl::V6 | Impl::Either => size_of::<libc::sockaddr_in6>(),
            Impl::Unix => size_of::<libc::sockaddr_un>(),
            Impl::No => 0,
        }
    }
}

// ---------------------------------------------------------------------------------------
// The real types.

trait Real: SocketAddress + Sized {
    fn from_addr(a: &Addr) -> Self;
    fn to_addr(&self) -> Addr;
}

fn v4_of(a: &Addr) -> SocketAddrV4 {
    match a {
        Addr::V4(ip, port) => SocketAddrV4::new(Ipv4Addr::from(*ip), *port),
        _ => unreachable!(),
    }
}
fn v6_of(a: &Addr) -> SocketAddrV6 {
    match a {
        Addr::V6(ip, port, flow, scope) => SocketAddrV6::new(Ipv6Addr::from(*ip), *port, *flow, *scope),
        _ => unreachable!(),
    }
}

impl Real for SocketAddrV4 {
    fn from_addr(a: &Addr) -> Self {
        v4_of(a)
    }
    fn to_addr(&self) -> Addr {
        Addr::V4(self.ip().octets(), self.port())
    }
}
impl Real for SocketAddrV6 {
    fn from_addr(a: &Addr) -> Self {
        v6_of(a)
    }
    fn to_addr(&self) -> Addr {
        Addr::V6(self.ip().octets(), self.port(), self.flowinfo(), self.scope_id())
    }
}
impl Real for SocketAddr {
    fn from_addr(a: &Addr) -> Self {
        match a {
            Addr::V4(..) => SocketAddr::V4(v4_of(a)),
            _ => SocketAddr::V6(v6_of(a)),
        }
    }
    fn to_addr(&self) -> Addr {
        match self {
            SocketAddr::V4(a) => a.to_addr(),
            SocketAddr::V6(a) => a.to_addr(),
        }
    }
}
impl Real for UnixAddr {
    fn from_addr(a: &Addr) -> Self {
        match a {
            Addr::Unnamed => UnixAddr::from_pathname("").unwrap(),
            Addr::Path(p) => UnixAddr::from_pathname(std::ffi::OsStr::from_bytes(p)).unwrap(),
            Addr::Abstract(n) => UnixAddr::from_abstract_name(n).unwrap(),
            _ => unreachable!(),
        }
    }
    fn to_addr(&self) -> Addr {
        // Bytes are compared, not `Path`s (`Path` equality normalises separators).
        if self.is_unnamed() {
            Addr::Unnamed
        } else if let Some(p) = self.as_pathname() {
            Addr::Path(p.as_os_str().as_bytes().to_vec())
        } else if let Some(n) = self.as_abstract_name() {
            Addr::Abstract(n.to_vec())
        } else {
            unreachable!()
        }
    }
}
impl Real for NoAddress {
    fn from_addr(_: &Addr) -> Self {
        NoAddress
    }
    fn to_addr(&self) -> Addr {
        Addr::NoAddr
    }
}

/// What `as_ptr` hands to the kernel.
struct Sent {
    len: u32,
    bytes: Vec<u8>,
    /// The pair lies inside the storage object (or is the null/0 pair).
    in_bounds: bool,
}

fn send<A: Real>(a: &Addr) -> Sent {
    let storage = A::from_addr(a).into_storage();
    let (ptr, len) = unsafe { A::as_ptr(&storage) };
    let base = std::ptr::from_ref(&storage) as usize;
    let size = size_of::<A::Storage>();
    let p = ptr as usize;
    let in_bounds = if ptr.is_null() { len == 0 } else { p >= base && p + len as usize <= base + size };
    let bytes = if in_bounds && !ptr.is_null() {
        // SAFETY: checked to lie within `storage`, which `into_storage` initialised.
        unsafe { std::slice::from_raw_parts(ptr.cast::<u8>(), len as usize) }.to_vec()
    } else {
        Vec::new()
    };
    Sent { len, bytes, in_bounds }
}

/// Capacity `as_mut_ptr` reports and whether the pair lies within the storage.
fn recv_capacity<A: Real>() -> (u32, bool) {
    let mut storage = MaybeUninit::<A::Storage>::uninit();
    let (ptr, cap) = unsafe { A::as_mut_ptr(&mut storage) };
    let base = storage.as_ptr() as usize;
    let p = ptr as usize;
    let ok = if ptr.is_null() { cap == 0 } else { p >= base && p + cap as usize <= base + size_of::<A::Storage>() };
    (cap, ok)
}

/// The kernel writes `content` (at most the capacity) into a fresh storage filled with `fill`
/// and reports `len`; `None` = `init` panicked (a `debug_assert!`).
fn receive<A: Real>(content: &[u8], len: u32, fill: u8) -> Option<Addr> {
    let mut storage = MaybeUninit::<A::Storage>::uninit();
    let (ptr, cap) = unsafe { A::as_mut_ptr(&mut storage) };
    let base = storage.as_ptr() as usize;
    let p = ptr as usize;
    if !ptr.is_null() {
        assert!(p >= base && p + cap as usize <= base + size_of::<A::Storage>());
        for i in 0..cap as usize {
            let b = content.get(i).copied().unwrap_or(fill);
            // SAFETY: inside `storage` (checked above).
            unsafe { ptr.cast::<u8>().add(i).write(b) };
        }
    }
    catch_unwind(AssertUnwindSafe(|| unsafe { A::init(storage, len) })).ok().map(|a| a.to_addr())
}

macro_rules! dispatch {
    ($i:expr, $f:ident ( $($arg:expr),* )) => {
        match $i {
            Impl::V4 => $f::<SocketAddrV4>($($arg),*),
            Impl::V6 => $f::<SocketAddrV6>($($arg),*),
            Impl::Either => $f::<SocketAddr>($($arg),*),
            Impl::Unix => $f::<UnixAddr>($($arg),*),
            Impl::No => $f::<NoAddress>($($arg),*),
        }
    };
}

// ---------------------------------------------------------------------------------------
// Independent statement of the property: Linux's view of a socket address.

/// Length Linux reports for an address.
fn kernel_len(a: &Addr) -> u32 {
    match a {
        Addr::V4(..) => 16,
        Addr::V6(..) => 28,
        Addr::Unnamed => 2,
        Addr::Path(p) => 2 + p.len() as u32 + 1,
        Addr::Abstract(n) => 2 + 1 + n.len() as u32,
        Addr::NoAddr => 0,
    }
}

/// The bytes Linux holds (and returns) for an address; `wire(a).len() == kernel_len(a)`.
fn wire(a: &Addr) -> Vec<u8> {
    let mut w = Vec::new();
    match a {
        Addr::V4(ip, port) => {
            w.extend_from_slice(&(libc::AF_INET as u16).to_ne_bytes());
            w.extend_from_slice(&[(port >> 8) as u8, *port as u8]);
            w.extend_from_slice(ip);
            w.extend_from_slice(&[0; 8]);
        }
        Addr::V6(ip, port, flow, scope) => {
            w.extend_from_slice(&(libc::AF_INET6 as u16).to_ne_bytes());
            w.extend_from_slice(&[(port >> 8) as u8, *port as u8]);
            w.extend_from_slice(&flow.to_ne_bytes());
            w.extend_from_slice(ip);
            w.extend_from_slice(&scope.to_ne_bytes());
        }
        Addr::Unnamed => w.extend_from_slice(&(libc::AF_UNIX as u16).to_ne_bytes()),
        Addr::Path(p) => {
            w.extend_from_slice(&(libc::AF_UNIX as u16).to_ne_bytes());
            w.extend_from_slice(p);
            w.push(0);
        }
        Addr::Abstract(n) => {
            w.extend_from_slice(&(libc::AF_UNIX as u16).to_ne_bytes());
            w.push(0);
            w.extend_from_slice(n);
        }
        Addr::NoAddr => {}
    }
    w
}

/// How Linux reads a `(pointer, length)` name passed to bind/connect/sendmsg.
fn linux_view(s: &[u8]) -> Option<Addr> {
    if s.is_empty() {
        return Some(Addr::NoAddr);
    }
    if s.len() < 2 {
        return None;
    }
    let family = u16::from_ne_bytes([s[0], s[1]]) as i32;
    if family == libc::AF_INET {
        if s.len() < 16 {
            return None;
        }
        Some(Addr::V4([s[4], s[5], s[6], s[7]], u16::from(s[2]) << 8 | u16::from(s[3])))
    } else if family == libc::AF_INET6 {
        if s.len() < 24 {
            return None; // SIN6_LEN_RFC2133
        }
        let scope = if s.len() >= 28 { u32::from_ne_bytes(s[24..28].try_into().unwrap()) } else { 0 };
        Some(Addr::V6(
            s[8..24].try_into().unwrap(),
            u16::from(s[2]) << 8 | u16::from(s[3]),
            u32::from_ne_bytes(s[4..8].try_into().unwrap()),
            scope,
        ))
    } else if family == libc::AF_UNIX {
        if s.len() > 110 {
            return None;
        }
        if s.len() == 2 {
            return Some(Addr::Unnamed); // autobind / unnamed
        }
        if s[2] == 0 {
            return Some(Addr::Abstract(s[3..].to_vec()));
        }
        let path = &s[2..];
        let n = path.iter().position(|b| *b == 0).unwrap_or(path.len());
        Some(Addr::Path(path[..n].to_vec()))
    } else {
        None
    }
}

fn show(a: &Option<Addr>) -> String {
    /// Quoted, non-printable bytes escaped, a long run of trailing NULs abbreviated.
    fn esc(b: &[u8]) -> String {
        let z = b.iter().rev().take_while(|c| **c == 0).count();
        let (head, tail) = if z > 4 { (&b[..b.len() - z], format!("+{z}xNUL")) } else { (b, String::new()) };
        let mut s = String::from("'");
        for c in head {
            if c.is_ascii_graphic() && *c != b'\\' && *c != b'"' && *c != b'\'' {
                s.push(*c as char);
            } else {
                let _ = write!(s, "\\x{c:02x}");
            }
        }
        s.push('\'');
        s + &tail
    }
    match a {
        None => "<init panicked>".into(),
        Some(Addr::V4(ip, port)) => format!("{}:{port}", Ipv4Addr::from(*ip)),
        Some(Addr::V6(ip, port, flow, scope)) => format!("[{}]:{port} flowinfo={flow} scope_id={scope}", Ipv6Addr::from(*ip)),
        Some(Addr::Unnamed) => "unix:(unnamed)".into(),
        Some(Addr::Path(p)) => format!("unix:path({} bytes){}", p.len(), esc(p)),
        Some(Addr::Abstract(n)) => format!("unix:abstract({} bytes){}", n.len(), esc(n)),
        Some(Addr::NoAddr) => "NoAddress".into(),
    }
}

// ---------------------------------------------------------------------------------------
// Rendering.

fn coq_bytes(b: &[u8]) -> String {
    let mut s = String::from("[");
    for (i, x) in b.iter().enumerate() {
        if i > 0 {
            s.push_str("; ");
        }
        let _ = write!(s, "{x}");
    }
    s.push(']');
    s
}

fn coq_addr(a: &Addr) -> String {
    match a {
        Addr::V4(ip, port) => format!("(V4 {} {port})", coq_bytes(ip)),
        Addr::V6(ip, port, flow, scope) => format!("(V6 {} {port} {flow} {scope})", coq_bytes(ip)),
        Addr::Unnamed => "UnUnnamed".into(),
        Addr::Path(p) => format!("(UnPath {})", coq_bytes(p)),
        Addr::Abstract(n) => format!("(UnAbstract {})", coq_bytes(n)),
        Addr::NoAddr => "NoAddr".into(),
    }
}

fn enc_bytes(o: &mut Vec<i128>, b: &[u8]) {
    o.push(b.len() as i128);
    o.extend(b.iter().map(|x| *x as i128));
}

fn enc_addr(o: &mut Vec<i128>, a: &Option<Addr>) {
    match a {
        None => o.push(-1),
        Some(Addr::V4(ip, port)) => {
            o.push(4);
            enc_bytes(o, ip);
            o.push(*port as i128);
        }
        Some(Addr::V6(ip, port, flow, scope)) => {
            o.push(6);
            enc_bytes(o, ip);
            o.extend([*port as i128, *flow as i128, *scope as i128]);
        }
        Some(Addr::Unnamed) => o.push(0),
        Some(Addr::Path(p)) => {
            o.push(1);
            enc_bytes(o, p);
        }
        Some(Addr::Abstract(n)) => {
            o.push(2);
            enc_bytes(o, n);
        }
        Some(Addr::NoAddr) => o.push(9),
    }
}

fn class_tag(a: &Addr) -> String {
    match a {
        Addr::V4(..) => "class:ipv4".into(),
        Addr::V6(..) => "class:ipv6".into(),
        Addr::Unnamed => "class:unix-unnamed".into(),
        Addr::Path(p) => format!("class:unix-path/len{}", bucket(p.len())),
        Addr::Abstract(n) => format!("class:unix-abstract/len{}", bucket(n.len())),
        Addr::NoAddr => "class:no-address".into(),
    }
}

fn bucket(n: usize) -> &'static str {
    match n {
        0 => "=0",
        1 => "=1",
        2..=15 => "2-15",
        16..=63 => "16-63",
        64..=105 => "64-105",
        106 => "=106",
        107 => "=107",
        _ => ">=108",
    }
}

// ---------------------------------------------------------------------------------------
// One address through the whole pipeline.

struct Failures(Vec<(String, Option<&'static str>)>);

impl Failures {
    fn push(&mut self, what: String, known: Option<&'static str>) {
        self.0.push((what, known));
    }
    /// A failure outside the known classes wins over one inside.
    fn verdict(self) -> (Option<String>, Option<String>) {
        if let Some((w, _)) = self.0.iter().find(|f| f.1.is_none()) {
            return (Some(w.clone()), None);
        }
        match self.0.into_iter().next() {
            Some((w, k)) => (Some(w), k.map(String::from)),
            None => (None, None),
        }
    }
}

fn addr_case(i: Impl, a: &Addr, fill: u8, extra: &[u32], mut tags: Vec<String>) -> Case {
    let mut obs = Vec::new();
    let mut f = Failures(Vec::new());
    let sent: Sent = dispatch!(i, send(a));
    let (cap, cap_ok): (u32, bool) = dispatch!(i, recv_capacity());
    obs.push(sent.len as i128);
    obs.push(cap as i128);
    enc_bytes(&mut obs, &sent.bytes);

    // --- pointer/length pair covers exactly the structure for the family ------------------
    if !sent.in_bounds {
        f.push(format!("as_ptr: the {}-byte pair leaves the {} storage", sent.len, i.ty()), None);
    }
    if !cap_ok {
        f.push(format!("as_mut_ptr: the {cap}-byte pair leaves the {} storage", i.ty()), None);
    }
    if cap as usize != i.family_struct() {
        f.push(format!("as_mut_ptr offers {cap} bytes to the kernel, the structure for {} has {}", i.ty(), i.family_struct()), None);
    }
    if kernel_len(a) > cap {
        f.push(format!("the kernel needs {} bytes for {}, as_mut_ptr offers {cap}", kernel_len(a), show(&Some(a.clone()))), None);
    }
    match a {
        Addr::V4(..) | Addr::V6(..) if sent.len != kernel_len(a) => {
            f.push(format!("as_ptr passes {} bytes for {}, its structure has {}", sent.len, show(&Some(a.clone())), kernel_len(a)), None);
        }
        _ => {}
    }
    let view = linux_view(&sent.bytes);
    if sent.in_bounds && view.as_ref() != Some(a) {
        // The exact symptom of H8: the name arrives NUL-padded to 107 bytes.
        let padded = match a {
            Addr::Abstract(n) if n.len() < 107 => {
                let mut p = n.clone();
                p.resize(107, 0);
                Some(Addr::Abstract(p))
            }
            Addr::Unnamed => Some(Addr::Abstract(vec![0; 107])),
            _ => None,
        };
        let known = if i == Impl::Unix && padded.is_some() && view == padded { Some(H8) } else { None };
        f.push(
            format!(
                "as_ptr passes {} bytes for {}, which Linux reads as {}",
                sent.len,
                show(&Some(a.clone())),
                view.as_ref().map_or("an invalid address".to_string(), |v| show(&Some(v.clone())))
            ),
            known,
        );
    }
    // The kernel's own representation is a prefix of what was passed.
    let w = wire(a);
    if sent.in_bounds && !(sent.bytes.len() >= w.len() && sent.bytes[..w.len()] == w[..]) {
        f.push(format!("the bytes passed for {} do not start with the kernel's representation", show(&Some(a.clone()))), None);
    }

    // --- and back, with the length the kernel reports -------------------------------------
    let back = |len: u32| -> Option<Addr> {
        let n = (len as usize).min(sent.bytes.len());
        dispatch!(i, receive(&sent.bytes[..n], len, fill))
    };
    let klen = kernel_len(a);
    let got = back(klen);
    enc_addr(&mut obs, &got);
    if got.as_ref() != Some(a) {
        let known = if i == Impl::Unix && matches!(a, Addr::Path(_)) && got == Some(Addr::Unnamed) { Some(H7) } else { None };
        f.push(format!("{} read back with the kernel's length {klen} is {}", show(&Some(a.clone())), show(&got)), known);
    }
    if let Addr::Path(_) = a {
        let got = back(klen - 1);
        enc_addr(&mut obs, &got);
        if got.as_ref() != Some(a) {
            f.push(format!("{} read back with the length without NUL {} is {}", show(&Some(a.clone())), klen - 1, show(&got)), None);
        }
    }
    if let Addr::Unnamed = a {
        // recvmsg reports msg_namelen = 0 for a sender that is not bound (nothing is written).
        let got = back(0);
        enc_addr(&mut obs, &got);
        if got.as_ref() != Some(a) {
            f.push(format!("the unnamed address read back with length 0 (what recvmsg reports for a sender that is not bound) is {}", show(&got)), None);
        }
    }
    for len in extra {
        enc_addr(&mut obs, &back(*len));
    }

    let coq = format!("(CaseAddr {} {} {fill} {})%N", i.coq(), coq_addr(a), coq_bytes_u32(extra));
    let json = format!(
        "{{\"kind\":\"addr\",\"impl\":{},\"addr\":{},\"fill\":{fill},\"extra_lengths\":{:?},\"as_ptr_len\":{},\"as_mut_ptr_len\":{cap}}}",
        out::jstr(i.ty()),
        out::jstr(&show(&Some(a.clone()))),
        extra,
        sent.len
    );
    tags.push(format!("impl:{}", i.ty()));
    tags.push(class_tag(a));
    let (oracle, known) = f.verdict();
    let nontrivial = !matches!(a, Addr::NoAddr);
    Case { coq, obs, json, oracle, known, tags, nontrivial }
}

fn coq_bytes_u32(b: &[u32]) -> String {
    let mut s = String::from("[");
    for (i, x) in b.iter().enumerate() {
        if i > 0 {
            s.push_str("; ");
        }
        let _ = write!(s, "{x}");
    }
    s.push(']');
    s
}

/// `init` on arbitrary storage contents.
fn raw_case(i: Impl, bytes: &[u8], len: u32, mut tags: Vec<String>) -> Case {
    let mut obs = Vec::new();
    let got: Option<Addr> = dispatch!(i, receive(bytes, len, 0));
    enc_addr(&mut obs, &got);
    tags.push(format!("impl:{}", i.ty()));
    tags.push("class:raw-storage".into());
    Case {
        coq: format!("(CaseRaw {} {} {len})%N", i.coq(), coq_bytes(bytes)),
        obs,
        json: format!("{{\"kind\":\"raw\",\"impl\":{},\"len\":{len},\"bytes\":{:?}}}", out::jstr(i.ty()), bytes),
        oracle: None,
        known: None,
        tags,
        nontrivial: true,
    }
}

// ---------------------------------------------------------------------------------------
// Generators.

const PORTS: [u16; 10] = [0, 1, 80, 255, 256, 0x1234, 0x3412, 0x7fff, 0x8000, 65535];
const U32S: [u32; 8] = [0, 1, 0xff, 0x0100, 0x000f_ffff, 0x1234_5678, 0x8000_0000, u32::MAX];

fn gen_port(r: &mut Rng) -> u16 {
    if r.chance(1, 2) { *r.pick(&PORTS) } else { r.next() as u16 }
}
fn gen_u32(r: &mut Rng) -> u32 {
    if r.chance(1, 2) { *r.pick(&U32S) } else { r.next() as u32 }
}
fn gen_ip4(r: &mut Rng) -> [u8; 4] {
    match r.below(6) {
        0 => [0, 0, 0, 0],
        1 => [127, 0, 0, 1],
        2 => [255, 255, 255, 255],
        3 => [1, 2, 3, 4],
        _ => (r.next() as u32).to_be_bytes(),
    }
}
fn gen_ip6(r: &mut Rng) -> [u8; 16] {
    match r.below(7) {
        0 => [0; 16],
        1 => Ipv6Addr::LOCALHOST.octets(),
        2 => [255; 16],
        3 => Ipv4Addr::new(1, 2, 3, 4).to_ipv6_mapped().octets(),
        4 => core::array::from_fn(|i| i as u8 + 1),
        _ => {
            let (a, b) = (r.next().to_be_bytes(), r.next().to_be_bytes());
            core::array::from_fn(|i| if i < 8 { a[i] } else { b[i - 8] })
        }
    }
}
fn gen_path(r: &mut Rng, len: usize) -> Vec<u8> {
    let style = r.below(4);
    (0..len)
        .map(|k| match style {
            0 => b'a' + (k % 26) as u8,
            1 => {
                if k % 7 == 3 { b'/' } else { b'a' + (r.below(26) as u8) }
            }
            // any non-NUL byte, not necessarily UTF-8
            _ => r.range(1, 255) as u8,
        })
        .collect()
}
fn gen_name(r: &mut Rng, len: usize) -> Vec<u8> {
    let style = r.below(5);
    let mut n: Vec<u8> = (0..len)
        .map(|k| match style {
            0 => b'a' + (k % 26) as u8,
            1 => 0,
            _ => r.next() as u8,
        })
        .collect();
    if len > 0 {
        match r.below(4) {
            0 => n[len - 1] = 0,
            1 => n[0] = 0,
            2 => n[len - 1] = b'z',
            _ => {}
        }
    }
    n
}
fn gen_extra(r: &mut Rng, i: Impl) -> Vec<u32> {
    let k = r.below(3);
    (0..k)
        .map(|_| match i {
            Impl::Unix => match r.below(6) {
                0 => r.below(2) as u32,
                1 => 110,
                _ => r.range(2, 110) as u32,
            },
            Impl::No => r.below(2) as u32,
            _ => *r.pick(&[0u32, 1, 2, 15, 16, 17, 24, 27, 28]),
        })
        .collect()
}

fn random_case(r: &mut Rng) -> Case {
    let fill = *r.pick(&[0u8, 0xAA, 0xFF, b'x', 1]);
    match r.below(16) {
        0 | 1 => {
            let a = Addr::V4(gen_ip4(r), gen_port(r));
            let i = if r.chance(1, 2) { Impl::V4 } else { Impl::Either };
            addr_case(i, &a, fill, &gen_extra(r, i), vec!["gen:random".into()])
        }
        2 | 3 | 4 => {
            let a = Addr::V6(gen_ip6(r), gen_port(r), gen_u32(r), gen_u32(r));
            let i = if r.chance(1, 2) { Impl::V6 } else { Impl::Either };
            addr_case(i, &a, fill, &gen_extra(r, i), vec!["gen:random".into()])
        }
        5 | 6 | 7 => {
            let len = match r.below(4) {
                0 => *r.pick(&[1usize, 2, 105, 106, 107]),
                _ => r.range(1, 107) as usize,
            };
            let a = Addr::Path(gen_path(r, len));
            addr_case(Impl::Unix, &a, fill, &gen_extra(r, Impl::Unix), vec!["gen:random".into()])
        }
        8 | 9 | 10 => {
            let len = match r.below(4) {
                0 => *r.pick(&[0usize, 1, 2, 105, 106, 107]),
                _ => r.range(0, 107) as usize,
            };
            let a = Addr::Abstract(gen_name(r, len));
            addr_case(Impl::Unix, &a, fill, &gen_extra(r, Impl::Unix), vec!["gen:random".into()])
        }
        11 => addr_case(Impl::Unix, &Addr::Unnamed, fill, &gen_extra(r, Impl::Unix), vec!["gen:random".into()]),
        12 => addr_case(Impl::No, &Addr::NoAddr, fill, &gen_extra(r, Impl::No), vec!["gen:random".into()]),
        13 | 14 => {
            // Arbitrary sockaddr_un contents: NULs anywhere, any length the kernel could report.
            let mut b = vec![0u8; 110];
            let fam = if r.chance(1, 12) { r.below(12) as u16 } else { libc::AF_UNIX as u16 };
            b[..2].copy_from_slice(&fam.to_ne_bytes());
            let style = r.below(4);
            for k in 2..110 {
                b[k] = match style {
                    0 => r.next() as u8,
                    1 => if r.chance(1, 6) { 0 } else { r.range(1, 255) as u8 },
                    2 => if r.chance(1, 30) { 0 } else { b'a' + r.below(26) as u8 },
                    _ => r.range(1, 255) as u8,
                };
            }
            if r.chance(1, 4) {
                b[2] = 0;
            }
            let len = match r.below(8) {
                0 => r.below(3) as u32,
                1 => 110,
                2 => 109,
                _ => r.range(2, 110) as u32,
            };
            raw_case(Impl::Unix, &b, len, vec!["gen:random".into()])
        }
        _ => {
            // Arbitrary sockaddr_in / sockaddr_in6 contents.
            let i = *r.pick(&[Impl::V4, Impl::V6, Impl::Either]);
            let cap = i.family_struct();
            let mut b: Vec<u8> = (0..cap).map(|_| r.next() as u8).collect();
            let fam = match r.below(8) {
                0 => r.below(12) as u16,
                1 | 2 | 3 => libc::AF_INET as u16,
                _ => libc::AF_INET6 as u16,
            };
            b[..2].copy_from_slice(&fam.to_ne_bytes());
            let len = if r.chance(3, 4) {
                if fam == libc::AF_INET as u16 { 16 } else { 28 }
            } else {
                *r.pick(&[0u32, 1, 2, 15, 16, 17, 27, 28])
            };
            raw_case(i, &b, len, vec!["gen:random".into()])
        }
    }
}

/// Every length, every boundary value, once.
fn sweep(root: &Rng, cases: &mut Vec<Case>) {
    let mut r = root.fork(0xC16_0000);
    let t = |s: &str| vec![format!("gen:{s}")];
    // Unix paths of every accepted length, abstract names of every accepted length.
    for len in 1..=107usize {
        for _ in 0..2 {
            let a = Addr::Path(gen_path(&mut r, len));
            cases.push(addr_case(Impl::Unix, &a, 0xAA, &[], t("sweep-path-lengths")));
        }
    }
    for len in 0..=107usize {
        for _ in 0..2 {
            let a = Addr::Abstract(gen_name(&mut r, len));
            cases.push(addr_case(Impl::Unix, &a, 0xAA, &[], t("sweep-abstract-lengths")));
        }
    }
    cases.push(addr_case(Impl::Unix, &Addr::Unnamed, 0xAA, &[0, 1, 2, 3, 110], t("sweep-unnamed")));
    cases.push(addr_case(Impl::No, &Addr::NoAddr, 0xAA, &[0, 1], t("sweep-no-address")));
    // Boundary ports x addresses, both implementing types.
    for port in PORTS {
        for k in 0..4u64 {
            let mut rr = r.fork(k);
            let ip = match k {
                0 => [0, 0, 0, 0],
                1 => [255, 255, 255, 255],
                2 => [1, 2, 3, 4],
                _ => gen_ip4(&mut rr),
            };
            for i in [Impl::V4, Impl::Either] {
                cases.push(addr_case(i, &Addr::V4(ip, port), 0xAA, &[], t("sweep-ipv4")));
            }
        }
        for flow in [0u32, 1, 0x1234_5678, u32::MAX] {
            for scope in [0u32, 1, 0x1234_5678, u32::MAX] {
                let ip = gen_ip6(&mut r);
                for i in [Impl::V6, Impl::Either] {
                    cases.push(addr_case(i, &Addr::V6(ip, port, flow, scope), 0xAA, &[], t("sweep-ipv6")));
                }
            }
        }
    }
    // Regression corpus: the witnesses of the findings, and kernel replies of special shape.
    cases.push(addr_case(Impl::Unix, &Addr::Path(b"/tmp/a10.sock".to_vec()), 0, &[], vec!["corpus:H7".into()]));
    cases.push(addr_case(Impl::Unix, &Addr::Abstract(b"a10".to_vec()), 0, &[], vec!["corpus:H8".into()]));
    let mut b = vec![0u8; 110];
    b[..2].copy_from_slice(&(libc::AF_UNIX as u16).to_ne_bytes());
    b[2..].fill(b'p');
    // A 108-byte pathname without NUL (Linux accepts it on bind; it reports 111 > 110, the
    // storage then holds 110 bytes): lengths up to the capacity only.
    cases.push(raw_case(Impl::Unix, &b, 110, vec!["corpus:path108".into()]));
    cases.push(raw_case(Impl::Unix, &b, 109, vec!["corpus:path107-no-nul".into()]));
}

// ---------------------------------------------------------------------------------------
// Thorough tier: the real kernel (bind / getsockname on Unix and loopback sockets).

struct Fd(i32);
impl Drop for Fd {
    fn drop(&mut self) {
        unsafe { libc::close(self.0) };
    }
}
impl std::os::fd::AsFd for Fd {
    fn as_fd(&self) -> std::os::fd::BorrowedFd<'_> {
        unsafe { std::os::fd::BorrowedFd::borrow_raw(self.0) }
    }
}

fn socket(domain: i32) -> Option<Fd> {
    let fd = unsafe { libc::socket(domain, libc::SOCK_DGRAM | libc::SOCK_CLOEXEC, 0) };
    (fd >= 0).then_some(Fd(fd))
}

/// getsockname with a buffer larger than any address: (reported length, bytes written).
fn raw_getsockname(fd: &Fd) -> Option<(u32, Vec<u8>)> {
    let mut buf = [0x55u8; 256];
    let mut len: libc::socklen_t = 256;
    let rc = unsafe { libc::getsockname(fd.0, buf.as_mut_ptr().cast(), &raw mut len) };
    (rc == 0).then(|| (len, buf[..(len as usize).min(256)].to_vec()))
}

fn raw_bind(fd: &Fd, bytes: &[u8]) -> bool {
    unsafe { libc::bind(fd.0, bytes.as_ptr().cast(), bytes.len() as u32) == 0 }
}

type Stats = std::collections::BTreeMap<&'static str, usize>;

/// One address against the real kernel. Returns the failures found and a tag.
fn kernel_check(i: Impl, a: &Addr, f: &mut Failures, stats: &mut Stats) -> &'static str {
    let mut count = |k: &'static str| *stats.entry(k).or_default() += 1;
    let domain = match a {
        Addr::V4(..) => libc::AF_INET,
        Addr::V6(..) => libc::AF_INET6,
        _ => libc::AF_UNIX,
    };
    let unlink = |a: &Addr| {
        if let Addr::Path(p) = a {
            let _ = std::fs::remove_file(std::ffi::OsStr::from_bytes(p));
        }
    };
    // (1) The kernel's own representation: bind the canonical bytes, read them back.
    let Some(fd) = socket(domain) else { return "kernel:socket-unavailable" };
    unlink(a);
    if !raw_bind(&fd, &wire(a)) {
        return "kernel:bind-refused";
    }
    let Some((len, bytes)) = raw_getsockname(&fd) else { return "kernel:getsockname-failed" };
    // Port 0 / autobind: the kernel picks; compare what it reports with itself below.
    let bound = linux_view(&bytes).unwrap_or(Addr::NoAddr);
    let fixed = !matches!(a, Addr::Unnamed | Addr::V4(_, 0) | Addr::V6(_, 0, _, _));
    if len == kernel_len(&bound) && bytes == wire(&bound) && (!fixed || &bound == a) {
        count("kernel_len_and_representation_agree");
    } else {
        count("kernel_len_or_representation_differs");
        f.push(
            format!("real kernel: {} bound as its canonical bytes reads back as {len} bytes {:?} (expected {} bytes)", show(&Some(a.clone())), bytes, kernel_len(a)),
            None,
        );
    }
    // (2) a10 reads the kernel's answer (`sync_local_addr` = as_mut_ptr + getsockname + init).
    let got: Option<Addr> = match i {
        Impl::V4 => a10::net::sync_local_addr::<SocketAddrV4>(&fd).ok().map(|x| x.to_addr()),
        Impl::V6 => a10::net::sync_local_addr::<SocketAddrV6>(&fd).ok().map(|x| x.to_addr()),
        Impl::Either => a10::net::sync_local_addr::<SocketAddr>(&fd).ok().map(|x| x.to_addr()),
        _ => a10::net::sync_local_addr::<UnixAddr>(&fd).ok().map(|x| x.to_addr()),
    };
    if got.as_ref() == Some(&bound) {
        count("a10_local_addr_agrees");
    } else {
        let known = (matches!(bound, Addr::Path(_)) && got == Some(Addr::Unnamed)).then_some(H7);
        count(if known.is_some() { "a10_local_addr_unnamed_for_pathname(H7)" } else { "a10_local_addr_differs" });
        f.push(format!("real kernel: socket bound to {} but a10's local address is {}", show(&Some(bound.clone())), show(&got)), known);
    }
    drop(fd);
    unlink(a);
    // (3) a10 passes the address to the kernel (`sync_bind` = into_storage + as_ptr + bind).
    let Some(fd) = socket(domain) else { return "kernel:socket-unavailable" };
    let rc = match i {
        Impl::V4 => a10::net::sync_bind(&fd, v4_of(a)),
        Impl::V6 => a10::net::sync_bind(&fd, v6_of(a)),
        Impl::Either => a10::net::sync_bind(&fd, SocketAddr::from_addr(a)),
        _ => a10::net::sync_bind(&fd, UnixAddr::from_addr(a)),
    };
    if let Err(e) = rc {
        f.push(format!("real kernel: a10 bind of {} failed: {e}", show(&Some(a.clone()))), None);
    } else if let Some((_, bytes)) = raw_getsockname(&fd) {
        let seen = linux_view(&bytes).unwrap_or(Addr::NoAddr);
        let same = match (a, &seen) {
            _ if fixed => &seen == a,
            // Port 0: the kernel picks the port.
            (Addr::V4(ip, 0), Addr::V4(ip2, _)) => ip == ip2,
            (Addr::V6(ip, 0, flow, scope), Addr::V6(ip2, _, flow2, scope2)) => (ip, flow, scope) == (ip2, flow2, scope2),
            // Binding the unnamed address is Linux's autobind: an abstract name of 5 hex digits.
            (Addr::Unnamed, Addr::Abstract(n)) => n.len() == 5 && n.iter().all(|c| c.is_ascii_hexdigit()),
            _ => false,
        };
        if same {
            count("a10_bind_binds_the_address");
        } else {
            let padded = match a {
                Addr::Abstract(n) => {
                    let mut p = n.clone();
                    p.resize(107, 0);
                    Addr::Abstract(p)
                }
                _ => Addr::Abstract(vec![0; 107]),
            };
            let known = (i == Impl::Unix && seen == padded).then_some(H8);
            count(if known.is_some() { "a10_bind_binds_padded_name(H8)" } else { "a10_bind_binds_other_address" });
            f.push(format!("real kernel: a10 bound {} and the kernel holds {}", show(&Some(a.clone())), show(&Some(seen.clone()))), known);
        }
    }
    drop(fd);
    unlink(a);
    // (4) Unix: what recvmsg reports as the address of a datagram's SENDER (0 bytes when the sender
    // is not bound: the contract `kernel_len_recv` of the model), and what a10's `init` makes of it.
    if domain == libc::AF_UNIX {
        let (Some(rx), Some(tx)) = (socket(domain), socket(domain)) else { return "kernel:socket-unavailable" };
        static RX_SEQ: std::sync::atomic::AtomicUsize = std::sync::atomic::AtomicUsize::new(0);
        let rx_name = format!("\0a10h-c16-rx-{}-{}", std::process::id(), RX_SEQ.fetch_add(1, std::sync::atomic::Ordering::SeqCst));
        let mut rx_wire = vec![1u8, 0];
        rx_wire.extend_from_slice(rx_name.as_bytes());
        unlink(a);
        let sender_ok = matches!(a, Addr::Unnamed) || raw_bind(&tx, &wire(a));
        if raw_bind(&rx, &rx_wire) && sender_ok {
            let sent = unsafe { libc::sendto(tx.0, b"x".as_ptr().cast(), 1, 0, rx_wire.as_ptr().cast(), rx_wire.len() as u32) };
            let mut name = [0x55u8; 256];
            let mut data = [0u8; 8];
            let mut iov = libc::iovec { iov_base: data.as_mut_ptr().cast(), iov_len: 8 };
            let mut msg: libc::msghdr = unsafe { std::mem::zeroed() };
            msg.msg_name = name.as_mut_ptr().cast();
            msg.msg_namelen = 256;
            msg.msg_iov = &raw mut iov;
            msg.msg_iovlen = 1;
            let got = if sent == 1 { unsafe { libc::recvmsg(rx.0, &raw mut msg, libc::MSG_DONTWAIT) } } else { -1 };
            if got == 1 {
                let want = if matches!(a, Addr::Unnamed) { 0 } else { kernel_len(a) };
                if msg.msg_namelen == want {
                    count("recvmsg_sender_length_as_in_the_model");
                } else {
                    count("recvmsg_sender_length_differs");
                    f.push(format!("real kernel: recvmsg reports {} bytes for the sender {} (the model's kernel_len_recv says {want})", msg.msg_namelen, show(&Some(a.clone()))), None);
                }
                let n = msg.msg_namelen as usize;
                let back: Option<Addr> = dispatch!(Impl::Unix, receive(&name[..n.min(110)], msg.msg_namelen, 0x55));
                if back.as_ref() == Some(a) {
                    count("a10_init_of_recvmsg_sender_agrees");
                } else {
                    count("a10_init_of_recvmsg_sender_differs");
                    f.push(format!("real kernel: the sender {} of a datagram, as recvmsg reports it ({} bytes), is read by a10 as {}", show(&Some(a.clone())), msg.msg_namelen, show(&back)), None);
                }
            } else {
                count("recvmsg_probe_not_delivered");
            }
        }
        drop(tx);
        drop(rx);
        unlink(a);
    }
    "kernel:checked"
}

fn kernel_cases(root: &Rng, cases: &mut Vec<Case>) -> String {
    let dir = std::env::temp_dir().join(format!("a10h-c16-{}", std::process::id()));
    let _ = std::fs::remove_dir_all(&dir);
    std::fs::create_dir_all(&dir).unwrap();
    let old = std::env::current_dir().ok();
    std::env::set_current_dir(&dir).unwrap(); // relative names: every length 1..107 is usable
    let mut r = root.fork(0xC16_7777);
    let mut list: Vec<(Impl, Addr)> = Vec::new();
    for len in [1usize, 2, 3, 7, 14, 15, 16, 17, 31, 50, 64, 90, 100, 105, 106, 107] {
        let p: Vec<u8> = (0..len).map(|k| if k == 0 { b's' } else { b'a' + r.below(26) as u8 }).collect();
        list.push((Impl::Unix, Addr::Path(p)));
    }
    let tag = format!("{:08x}", r.next() as u32 ^ std::process::id());
    for len in [0usize, 1, 2, 5, 20, 64, 100, 106, 107] {
        // Unique per run: abstract names live in the network namespace.
        let mut n = gen_name(&mut r, len);
        for (k, c) in tag.bytes().enumerate() {
            if k + 1 < n.len() {
                n[k + 1] = c;
            }
        }
        if len <= 2 {
            n = tag.bytes().take(len).collect();
        }
        list.push((Impl::Unix, Addr::Abstract(n)));
    }
    list.push((Impl::Unix, Addr::Unnamed));
    for i in [Impl::V4, Impl::Either] {
        list.push((i, Addr::V4([127, 0, 0, 1], 0)));
        list.push((i, Addr::V4([127, 0, 0, 2], 0)));
        list.push((i, Addr::V4([0, 0, 0, 0], 0)));
    }
    for i in [Impl::V6, Impl::Either] {
        list.push((i, Addr::V6(Ipv6Addr::LOCALHOST.octets(), 0, 0, 0)));
        list.push((i, Addr::V6([0; 16], 0, 0, 0)));
    }
    let mut stats = Stats::new();
    for (i, a) in &list {
        let mut f = Failures(Vec::new());
        let t = kernel_check(*i, a, &mut f, &mut stats);
        *stats.entry(t).or_default() += 1;
        let mut c = addr_case(*i, a, 0x55, &[], vec!["gen:real-kernel".into(), t.into()]);
        // Fold the real-kernel verdict into the case (an unknown failure wins).
        let (o, k) = f.verdict();
        if let Some(o) = o {
            if c.oracle.is_none() || (c.known.is_some() && k.is_none()) {
                c.oracle = Some(o);
                c.known = k;
            }
        }
        cases.push(c);
    }
    if let Some(old) = old {
        let _ = std::env::set_current_dir(old);
    }
    let _ = std::fs::remove_dir_all(&dir);
    let mut s = String::from("{");
    for (k, (t, n)) in stats.iter().enumerate() {
        if k > 0 {
            s.push(',');
        }
        let _ = write!(s, "{}:{n}", out::jstr(t));
    }
    s.push('}');
    s
}

pub fn run(args: &Args) -> i32 {
    // The constants the model hard-codes.
    assert_eq!((libc::AF_UNIX, libc::AF_INET, libc::AF_INET6), (1, 2, 10));
    assert_eq!(size_of::<libc::sockaddr_in>(), 16);
    assert_eq!(size_of::<libc::sockaddr_in6>(), 28);
    assert_eq!(size_of::<libc::sockaddr_un>(), 110);
    assert_eq!(std::mem::offset_of!(libc::sockaddr_un, sun_path), 2);
    assert!(cfg!(target_endian = "little"));
    // `init` panics on purpose in some cases (debug assertions); keep stderr quiet.
    std::panic::set_hook(Box::new(|_| {}));

    let n = args.n.unwrap_or(if args.thorough { 20_000 } else { 2_500 });
    let root = Rng::new(args.seed);
    let mut cases = Vec::new();
    sweep(&root, &mut cases);
    // What std accepts bounds the quantification: 108-byte paths and names are refused.
    let path108 = UnixAddr::from_pathname(std::ffi::OsStr::from_bytes(&[b'p'; 108])).is_ok();
    let name108 = UnixAddr::from_abstract_name([b'n'; 108]).is_ok();
    let mut extra: Vec<(&str, String)> = vec![
        ("std_accepts_path_of_108_bytes", path108.to_string()),
        ("std_accepts_abstract_name_of_108_bytes", name108.to_string()),
    ];
    if args.thorough {
        let stats = kernel_cases(&root, &mut cases);
        extra.push(("real_kernel", stats));
    }
    for i in 0..n {
        let mut r = root.fork(i as u64);
        cases.push(random_case(&mut r));
    }
    let _ = std::panic::take_hook();
    let spec = Spec {
        prop: "C16",
        imports: &["Model.SockAddr"],
        run_fn: RUN_FN,
        case_ty: "sacase",
        shard: 500,
    };
    out::write_all(&args.out, &spec, &cases, &extra);
    0
}

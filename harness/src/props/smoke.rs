//! Smoke test of the simulated kernel: a few reads on a 2-entry ring.
use std::pin::pin;
use std::task::Poll;

use crate::simk::{self, abi, Ev};
use crate::util::{poll_once, WakeLog};
use crate::Args;

pub fn run(_: &Args) -> i32 {
    simk::install();
    simk::configure(simk::SetupConfig { sq_start: u32::MAX - 1, cq_start: u32::MAX - 2, ..Default::default() });
    let mut ring = a10::Ring::config().with_submission_queue_size(2).build().expect("ring");
    let sq = ring.sq();
    let fd = std::mem::ManuallyDrop::new(unsafe { a10::AsyncFd::from_raw_fd(0, sq.clone()) });
    let wl = WakeLog::default();
    let mut f1 = pin!(fd.read(Vec::with_capacity(16)));
    let w = wl.waker(1);
    assert!(poll_once(f1.as_mut(), &w).is_pending());
    ring.poll(Some(std::time::Duration::ZERO)).unwrap();
    let log = simk::with(|s| s.take_log());
    for e in &log {
        println!("{e:?}");
    }
    let req = simk::with(|s| s.inflight[0].req);
    let addr = simk::with(|s| s.inflight[0].sqe.addr);
    unsafe { (addr as *mut u8).write_bytes(b'x', 5) };
    simk::with(|s| s.complete(req, 5, 0));
    ring.poll(Some(std::time::Duration::ZERO)).unwrap();
    println!("wakes {:?}", wl.take());
    match poll_once(f1.as_mut(), &w) {
        Poll::Ready(r) => println!("result {:?}", r),
        Poll::Pending => println!("pending?!"),
    }
    drop(ring);
    for e in simk::with(|s| s.take_log()) {
        println!("{e:?}");
    }
    let _ = abi::OP_READ;
    let _ = Ev::Close { fd: 0 };
    0
}

//! C03R — internal driver (not a property of MANIFEST.json; run by `bin/check C03` and
//! `bin/check C06` through `also_drivers`): the race between futures polled / dropped on one or
//! two threads and `Ring::poll` on another thread, on the REAL code under the baton scheduler and
//! the simulated (auto-completing) kernel. The executed interleaving is replayed step by step on
//! coq/Model/OpRace.v: per executed segment the hook-point code the thread was resumed from and
//! what the segment did (poll results, wake-ups in order, submissions the kernel consumed, frees
//! of operation states seen by the tracking allocator); at the end what is left.
//!
//! Four phases, each a `sched::run`: (1) the race; (2) the ring alone, a few more polls — then
//! the oracle of `ops::sched_case`: every future that is still pending has had the waker of its
//! most recent poll invoked; (3) the future threads drop what is left; (4) the ring alone, two
//! polls. Then the ring is dropped (not modelled) and every started operation's state must have
//! been freed exactly once.

use std::collections::{BTreeMap, BTreeSet};
use std::fmt::Write as _;
use std::future::Future;
use std::mem::ManuallyDrop;
use std::pin::Pin;
use std::sync::{Arc, Mutex};
use std::task::{Poll, Wake, Waker};
use std::time::Duration;

use crate::out::{self, Case, Spec};
use crate::rng::Rng;
use crate::simk::{self, abi, Ev};
use crate::util::poll_once;
use crate::{alloc, sched, Args};

type BoxFut = Pin<Box<dyn Future<Output = std::io::Result<usize>> + Send>>;

static DATA: &[u8] = b"race payload....";

fn fake_fd(i: usize) -> i32 {
    1_000_000 + i as i32
}

#[derive(Clone, Copy, Debug)]
enum Call {
    Poll(usize, u64),
    DropOp(usize),
    Yield,
}

/// Everything the threads and the segment observer share. Never locked across an a10 call.
struct Ctx {
    /// The observation stream: `-1, code` per executed segment, then what the segment did.
    ev: Vec<i128>,
    /// user_data of each operation once its submission has been seen in the queue.
    ud: Vec<Option<u64>>,
    /// Watched box address -> operation (removed at its first free: the address may be reused).
    box_of: BTreeMap<usize, usize>,
    frees: Vec<usize>,
    cancels: Vec<usize>,
    drop_called: Vec<bool>,
    woken_ids: BTreeSet<u64>,
    /// Waker of the most recent poll of each operation and whether that poll returned Pending.
    last_poll: Vec<Option<(u64, bool)>>,
    started: Vec<bool>,
    progs: Vec<Vec<Call>>,
    futs: Vec<Option<BoxFut>>,
    next_waker: u64,
    oracle: Option<String>,
    parked: usize,
    repolls_unwoken: usize,
}

impl Ctx {
    fn fail(&mut self, what: String) {
        if self.oracle.is_none() {
            self.oracle = Some(what);
        }
    }
}

struct RaceWaker {
    id: u64,
    ctx: Arc<Mutex<Ctx>>,
}

impl Wake for RaceWaker {
    fn wake(self: Arc<Self>) {
        self.wake_by_ref();
    }
    fn wake_by_ref(self: &Arc<Self>) {
        let mut c = self.ctx.lock().unwrap();
        c.ev.push(30);
        c.ev.push(self.id as i128);
        c.woken_ids.insert(self.id);
    }
}

/// Learn the box address of operations whose submission is in the queue (and watch it), then
/// move the kernel's and the allocator's logs into the observation stream.
fn drain(ctx: &Arc<Mutex<Ctx>>, n_futs: usize) {
    let pending: Vec<abi::Sqe> = simk::with(|s| s.pending_sqes());
    let log = simk::with(|s| s.take_log());
    let mut c = ctx.lock().unwrap();
    let learn = |c: &mut Ctx, q: &abi::Sqe| {
        if q.opcode == abi::OP_ASYNC_CANCEL {
            return;
        }
        let i = (q.fd - fake_fd(0)) as usize;
        if q.fd >= fake_fd(0) && i < n_futs && c.ud[i].is_none() {
            c.ud[i] = Some(q.user_data);
            let addr = (q.user_data & !1) as usize;
            alloc::watch(addr);
            c.box_of.insert(addr, i);
        }
    };
    for q in &pending {
        learn(&mut c, q);
    }
    for e in log {
        match e {
            Ev::Consumed { sqe, .. } => {
                if sqe.opcode == abi::OP_ASYNC_CANCEL {
                    let target = c.ud.iter().position(|u| *u == Some(sqe.addr));
                    c.ev.push(21);
                    c.ev.push(target.map_or(-1, |t| t as i128));
                    match target {
                        None => c.fail(format!("a cancellation request names user_data {:#x}, which is no operation's", sqe.addr)),
                        Some(t) => {
                            c.cancels[t] += 1;
                            if !c.drop_called[t] {
                                c.fail(format!("operation {t} was cancelled although its future was not dropped"));
                            }
                            if c.cancels[t] > 1 {
                                let k = c.cancels[t];
                                c.fail(format!("operation {t} got {k} cancellation requests"));
                            }
                            if sqe.user_data != 2 || sqe.flags & abi::SQE_CQE_SKIP_SUCCESS == 0 {
                                c.fail("cancellation request without the bookkeeping user_data / CQE_SKIP_SUCCESS".into());
                            }
                        }
                    }
                } else {
                    learn(&mut c, &sqe);
                    let i = (sqe.fd - fake_fd(0)) as usize;
                    c.ev.push(20);
                    c.ev.push(if sqe.fd >= fake_fd(0) && i < n_futs { i as i128 } else { -1 });
                }
            }
            Ev::Corrupt { what } => c.fail(what),
            _ => {}
        }
    }
    for addr in alloc::take_freed() {
        if let Some(op) = c.box_of.remove(&addr) {
            c.frees[op] += 1;
            c.ev.push(40);
            c.ev.push(op as i128);
        }
    }
}

fn ring_thread(ring_cell: &Arc<Mutex<Option<a10::Ring>>>, polls: usize) -> Box<dyn FnOnce() + Send> {
    let ring_cell = ring_cell.clone();
    Box::new(move || {
        if polls == 0 {
            return;
        }
        let mut ring = ring_cell.lock().unwrap().take().unwrap();
        for _ in 0..polls {
            let _ = ring.poll(Some(Duration::ZERO));
        }
        *ring_cell.lock().unwrap() = Some(ring);
    })
}

/// One API call of future thread `t` on operation `i`, recorded in the thread's program.
fn do_poll(ctx: &Arc<Mutex<Ctx>>, t: usize, i: usize) {
    let (mut f, w) = {
        let mut c = ctx.lock().unwrap();
        let f = c.futs[i].take().unwrap();
        let w = c.next_waker;
        c.next_waker += 1;
        c.progs[t].push(Call::Poll(i, w));
        if let Some((lw, true)) = c.last_poll[i] {
            if !c.woken_ids.contains(&lw) {
                c.repolls_unwoken += 1;
            }
        }
        (f, w)
    };
    let waker = Waker::from(Arc::new(RaceWaker { id: w, ctx: ctx.clone() }));
    let res = poll_once(f.as_mut(), &waker);
    drop(waker);
    // Still in the segment in which the poll returned: a submission queued by it is pending.
    let queued = simk::with(|s| s.pending_sqes()).iter().any(|q| q.opcode != abi::OP_ASYNC_CANCEL && q.fd == fake_fd(i));
    let mut c = ctx.lock().unwrap();
    if queued {
        c.started[i] = true;
    }
    match res {
        Poll::Pending => {
            c.ev.push(10);
            c.last_poll[i] = Some((w, true));
            if !c.started[i] {
                c.parked += 1;
            }
            c.futs[i] = Some(f);
        }
        Poll::Ready(r) => {
            c.ev.push(11);
            c.last_poll[i] = Some((w, false));
            if !matches!(r, Ok(7)) {
                c.fail(format!("operation {i} finished with {r:?}, the kernel completed it with 7"));
            }
            // The finished future is dropped: a call of its own (State::drop takes the mutex).
            c.progs[t].push(Call::DropOp(i));
            c.drop_called[i] = true;
            drop(c);
            drop(f);
        }
    }
}

fn do_drop(ctx: &Arc<Mutex<Ctx>>, t: usize, i: usize) {
    let f = {
        let mut c = ctx.lock().unwrap();
        let f = c.futs[i].take().unwrap();
        c.progs[t].push(Call::DropOp(i));
        c.drop_called[i] = true;
        f
    };
    drop(f);
}

pub fn one_case(r: &mut Rng, silent: &Arc<Mutex<Option<String>>>, debug: bool) -> Case {
    alloc::enable(false);
    alloc::unwatch_all();
    let _ = alloc::take_bad_frees();
    let cap = *r.pick(&[1u32, 1, 2, 2, 4]);
    let n_fthreads = if r.chance(1, 3) { 2 } else { 1 };
    let n_futs = r.range(2, 5) as usize;
    let ring_polls = r.range(1, 4) as usize;
    let rounds = r.range(1, 3) as usize;
    let drop_mode = *r.pick(&[0u64, 0, 1, 2]); // none / some / many drops in the race
    let with_drops = drop_mode > 0;
    let drop_pct = [0u64, 25, 66][drop_mode as usize];
    let impatient = *r.pick(&[0u64, 20, 50]);
    let preempt = *r.pick(&[10u64, 25, 40, 60]);
    let n_threads = 1 + n_fthreads;
    let prefix: Vec<usize> = (0..400).map(|_| if r.below(100) < preempt { 1 + r.below(n_threads as u64 - 1) as usize } else { 0 }).collect();
    let thread_seeds: Vec<u64> = (0..n_fthreads).map(|_| r.next()).collect();
    simk::configure(simk::SetupConfig { sq_start: r.next() as u32, cq_start: r.next() as u32, auto_complete: Some((7, 0)), ..Default::default() });
    let ring = a10::Ring::config().with_submission_queue_size(cap).with_completion_queue_size(64).build().expect("ring on the simulated kernel");
    let ring_fd = simk::with(|s| s.fd);
    let sq = ring.sq();
    let mut fds: Vec<Box<ManuallyDrop<a10::AsyncFd>>> = Vec::new();
    let mut futs: Vec<Option<BoxFut>> = Vec::new();
    for i in 0..n_futs {
        simk::add_fake_fd(fake_fd(i));
        let fd = Box::new(ManuallyDrop::new(unsafe { a10::AsyncFd::from_raw_fd(fake_fd(i), sq.clone()) }));
        let fd_ref: &'static a10::AsyncFd = unsafe { &*(&**fd as *const a10::AsyncFd) };
        fds.push(fd);
        futs.push(Some(Box::pin(fd_ref.write(DATA))));
    }
    let ctx = Arc::new(Mutex::new(Ctx {
        ev: Vec::new(),
        ud: vec![None; n_futs],
        box_of: BTreeMap::new(),
        frees: vec![0; n_futs],
        cancels: vec![0; n_futs],
        drop_called: vec![false; n_futs],
        woken_ids: BTreeSet::new(),
        last_poll: vec![None; n_futs],
        started: vec![false; n_futs],
        progs: vec![Vec::new(); n_fthreads],
        futs,
        next_waker: 1,
        oracle: None,
        parked: 0,
        repolls_unwoken: 0,
    }));
    let ring_cell = Arc::new(Mutex::new(Some(ring)));
    let _ = simk::with(|s| s.take_log());
    {
        let ctx = ctx.clone();
        sched::set_observer(Some(Box::new(move |_t, point| {
            drain(&ctx, n_futs);
            let mut c = ctx.lock().unwrap();
            c.ev.push(-1);
            c.ev.push(point as i128);
        })));
    }
    let mut exec: Vec<(usize, u32)> = Vec::new();
    let mut preemptions = 0;
    let mut panicked: Option<String> = None;
    let mut acc = |out: sched::Outcome, exec: &mut Vec<(usize, u32)>| {
        preemptions += out.trace.iter().filter(|t| t.2).count();
        if panicked.is_none() {
            panicked = out.panicked.clone();
        }
        exec.extend(out.exec);
    };
    let run_phase = |threads: Vec<Box<dyn FnOnce() + Send>>, prefix: &[usize]| -> sched::Outcome {
        let out = sched::run(threads, prefix);
        drain(&ctx, n_futs);
        out
    };

    // ---- phase 1: the race -----------------------------------------------------------------------
    let mut threads: Vec<Box<dyn FnOnce() + Send>> = vec![ring_thread(&ring_cell, ring_polls)];
    for t in 0..n_fthreads {
        let ctx = ctx.clone();
        let seed = thread_seeds[t];
        threads.push(Box::new(move || {
            let mut tr = Rng::new(seed);
            for round in 0..=rounds {
                for i in (0..n_futs).filter(|i| i % n_fthreads == t) {
                    // 0 skip, 1 poll, 2 drop
                    let action = {
                        let c = ctx.lock().unwrap();
                        if c.futs[i].is_none() {
                            0
                        } else {
                            match c.last_poll[i] {
                                None => {
                                    if with_drops && tr.chance(1, 10) {
                                        2
                                    } else {
                                        1
                                    }
                                }
                                Some((w, _)) => {
                                    if c.woken_ids.contains(&w) || tr.below(100) < impatient {
                                        1
                                    } else if tr.below(100) < drop_pct {
                                        2
                                    } else {
                                        0
                                    }
                                }
                            }
                        }
                    };
                    match action {
                        1 => do_poll(&ctx, t, i),
                        2 => do_drop(&ctx, t, i),
                        _ => {}
                    }
                }
                if round < rounds {
                    ctx.lock().unwrap().progs[t].push(Call::Yield);
                    sched::yield_point(100);
                }
            }
        }));
    }
    let o = run_phase(threads, &prefix);
    acc(o, &mut exec);
    let race_len = exec.len();
    // A future call overlapped the dispatch of a completion of the same operation: the ring thread
    // found the operation's mutex taken.
    let overlap = exec.iter().any(|e| e.0 == 0 && e.1 == a10::verif::points::LOCK_SPIN);
    let fut_spin = exec.iter().any(|e| e.0 != 0 && e.1 == a10::verif::points::LOCK_SPIN);

    // ---- phase 2: the ring alone -----------------------------------------------------------------
    // Every poll wakes as many parked wakers as there are free slots (at least one here, the queue
    // being empty after the first poll), oldest first; a future re-polled while the queue was full
    // has left one waker per poll on the list.
    let settle_polls = n_futs + 2 + ctx.lock().unwrap().parked;
    let mut threads: Vec<Box<dyn FnOnce() + Send>> = vec![ring_thread(&ring_cell, settle_polls)];
    for _ in 0..n_fthreads {
        threads.push(Box::new(|| {}));
    }
    let o = run_phase(threads, &[]);
    acc(o, &mut exec);
    {
        let mut c = ctx.lock().unwrap();
        for i in 0..n_futs {
            if let (true, Some((w, true))) = (c.futs[i].is_some(), c.last_poll[i]) {
                if !c.woken_ids.contains(&w) {
                    let parked = !c.started[i];
                    c.fail(format!(
                        "future {i} returned Pending (waker {w}) and that waker was never invoked although Ring::poll was called {} more times afterwards ({}); an executor that re-polls only when woken is stuck",
                        settle_polls,
                        if parked { "it was waiting for a submission slot" } else { "its completion was processed" }
                    ));
                }
            }
        }
    }

    // ---- phase 3: drop what is left --------------------------------------------------------------
    let mut threads: Vec<Box<dyn FnOnce() + Send>> = vec![Box::new(|| {})];
    for t in 0..n_fthreads {
        let ctx = ctx.clone();
        threads.push(Box::new(move || {
            for i in (0..n_futs).filter(|i| i % n_fthreads == t) {
                if ctx.lock().unwrap().futs[i].is_some() {
                    do_drop(&ctx, t, i);
                }
            }
        }));
    }
    let o = run_phase(threads, &[]);
    acc(o, &mut exec);

    // ---- phase 4: the ring alone, reaping --------------------------------------------------------
    let mut threads: Vec<Box<dyn FnOnce() + Send>> = vec![ring_thread(&ring_cell, 2)];
    for _ in 0..n_fthreads {
        threads.push(Box::new(|| {}));
    }
    let o = run_phase(threads, &[]);
    acc(o, &mut exec);
    sched::set_observer(None);

    let total_polls = ring_polls + settle_polls + 2;
    let (sq_pending, cq_ready, inflight) = simk::with_fd(ring_fd, |s| {
        s.check_counters();
        (s.sq_pending() as i128, s.cq_ready() as i128, s.inflight.len() as i128)
    })
    .unwrap_or((0, 0, 0));
    let mut obs: Vec<i128>;
    let progs: Vec<Vec<Call>>;
    {
        let mut c = ctx.lock().unwrap();
        obs = std::mem::take(&mut c.ev);
        progs = c.progs.clone();
        obs.extend([-2, 0, 0, sq_pending, cq_ready, inflight]);
        obs.push(-3);
        for i in 0..n_futs {
            obs.push(if c.frees[i] == 0 { 1 } else { 0 });
        }
    }
    let mut oracle: Option<String> = ctx.lock().unwrap().oracle.take();
    if let Some(p) = &panicked {
        let msg = silent.lock().unwrap().take().unwrap_or_default();
        oracle.get_or_insert(format!("a thread panicked: {p} {msg}"));
    }

    // ---- teardown (not modelled) and the reclamation oracle ----------------------------------------
    drop(sq);
    let ring = ring_cell.lock().unwrap().take();
    let _ = std::panic::catch_unwind(std::panic::AssertUnwindSafe(move || drop(ring)));
    drain(&ctx, n_futs);
    {
        let c = ctx.lock().unwrap();
        for i in 0..n_futs {
            if c.ud[i].is_some() && c.frees[i] != 1 && oracle.is_none() {
                oracle = Some(format!(
                    "the state of operation {i} was freed {} times although its future and the ring were dropped ({})",
                    c.frees[i],
                    if c.frees[i] == 0 { "leaked" } else { "freed more than once" }
                ));
            }
        }
        if oracle.is_none() {
            oracle = c.oracle.clone();
        }
    }
    let double = alloc::take_bad_frees();
    if double > 0 && oracle.is_none() {
        oracle = Some(format!("{double} operation state(s) were freed twice"));
    }
    alloc::unwatch_all();
    for fd in fds {
        drop(ManuallyDrop::into_inner(*fd));
    }
    simk::retire(ring_fd);

    // ---- the case as a Coq term ------------------------------------------------------------------
    let mut events = String::new();
    let mut js = String::new();
    for (k, (t, p)) in exec.iter().enumerate() {
        if k > 0 {
            events.push_str("; ");
            js.push(',');
        }
        let _ = write!(events, "T {t}%nat");
        let _ = write!(js, "\"T{t}@{p}\"");
    }
    let coq_call = |c: &Call| match c {
        Call::Poll(i, w) => format!("Poll {i}%nat {w}%N"),
        Call::DropOp(i) => format!("DropOp {i}%nat"),
        Call::Yield => "Yield".to_string(),
    };
    let js_call = |c: &Call| match c {
        Call::Poll(i, w) => format!("\"poll(op{i},waker{w})\""),
        Call::DropOp(i) => format!("\"drop(op{i})\""),
        Call::Yield => "\"yield\"".to_string(),
    };
    let coq_progs: Vec<String> = progs.iter().map(|p| format!("[{}]", p.iter().map(coq_call).collect::<Vec<_>>().join("; "))).collect();
    let js_progs: Vec<String> = progs.iter().map(|p| format!("[{}]", p.iter().map(js_call).collect::<Vec<_>>().join(","))).collect();
    let coq = format!(
        "{{| rc_cap := {cap}%N; rc_nops := {n_futs}%nat; rc_polls := {total_polls}%nat; rc_progs := [{}]; rc_events := [{events}] |}}",
        coq_progs.join("; ")
    );
    let json = format!(
        "{{\"sq_entries\":{cap},\"futures\":{n_futs},\"future_threads\":{n_fthreads},\"ring_polls_in_race\":{ring_polls},\"rounds\":{rounds},\"drops_in_race\":{drop_mode},\"programs\":[{}],\"race_steps\":{race_len},\"schedule\":[{js}]}}",
        js_progs.join(",")
    );
    if debug {
        println!("{json}");
        println!("obs {:?}", obs);
        println!("oracle {:?}", oracle);
    }
    let (parked, repolls_unwoken) = {
        let c = ctx.lock().unwrap();
        (c.parked, c.repolls_unwoken)
    };
    let dropped_running = progs.iter().flatten().filter(|c| matches!(c, Call::DropOp(_))).count();
    let _ = dropped_running;
    let tags = vec![
        format!("cap:{cap}"),
        format!("future_threads:{n_fthreads}"),
        format!("preemptions:{}", preemptions.min(8)),
        format!("call_overlaps_dispatch_of_same_op:{overlap}"),
        format!("future_thread_spun:{fut_spin}"),
        format!("parked_wakers:{}", parked.min(4)),
        format!("repolls_with_replaced_waker:{}", repolls_unwoken.min(4)),
        format!("drops_in_race:{}", ["none", "some", "many"][drop_mode as usize]),
        format!("cancels_consumed:{}", ctx.lock().unwrap().cancels.iter().sum::<usize>().min(3)),
    ];
    // Break the reference cycle ctx -> futs (all dropped) and wakers -> ctx.
    Case { coq, obs, json, oracle, known: None, tags, nontrivial: preemptions > 0 }
}

pub fn run(args: &Args) -> i32 {
    simk::install();
    let silent: Arc<Mutex<Option<String>>> = Arc::new(Mutex::new(None));
    let s2 = silent.clone();
    std::panic::set_hook(Box::new(move |info| {
        *s2.lock().unwrap() = Some(info.to_string());
    }));
    let root = Rng::new(args.seed ^ 0xC03C_06AC_E5ED);
    if std::env::var("A10H_DEBUG").is_ok() {
        for i in 0..args.n.unwrap_or(3) {
            let mut r = root.fork(i as u64);
            one_case(&mut r, &silent, true);
        }
        return 0;
    }
    let n = args.n.unwrap_or(if args.thorough { 24_000 } else { 1_500 });
    let cases = out::run_forked(&args.out, n, 12, &|i| {
        let mut r = root.fork(i as u64);
        one_case(&mut r, &silent, false)
    });
    let _ = std::panic::take_hook();
    let spec = Spec { prop: "C03R", imports: &["Model.OpRace"], run_fn: "run_racecase", case_ty: "racecase", shard: 250 };
    out::write_all(&args.out, &spec, &cases, &[]);
    0
}

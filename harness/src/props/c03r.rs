//! C03R — internal driver (not a property of MANIFEST.json; run by `bin/check C03` and
//! `bin/check C06` through `also_drivers`): the race between futures polled / dropped on one or
//! two threads and `Ring::poll` on another thread, on the REAL code under the baton scheduler and
//! the simulated kernel: single-shot writes, multishot accepts (a stream of results) and zero-copy
//! sends (result completion with F_MORE, then a notification); the kernel either auto-completes
//! (single-shot only, as before) or posts scripted completions from a kernel thread that is
//! scheduled like the others (its steps are the `K i` events of the model). The executed
//! interleaving is replayed step by step on
//! coq/Model/OpRace.v: per executed segment the hook-point code the thread was resumed from and
//! what the segment did (poll results, wake-ups in order, submissions the kernel consumed, frees
//! of operation states seen by the tracking allocator); at the end what is left.
//!
//! Phases, each a `sched::run`: (1) the race; (2) the kernel posts a little more, then the ring
//! alone, a few more polls — then the wake-up oracle: every future that is still pending AND ready
//! (final completion posted; a stream: a result posted that was not handed out) has had the waker
//! of its most recent poll invoked since that poll; (3) a second race: woken futures are polled
//! again (stream items, results) while more completions are posted and dispatched; (4) the kernel
//! posts what is left of the scripts of the requests in flight, the ring alone, the oracle again;
//! (5) the future threads drop what is left; (6) the ring alone, two polls, the kernel again, two
//! more polls. Then the ring is dropped (not modelled) and every started operation's
//! state must have been freed exactly once. Independent oracles all along: the values a future
//! hands out are the results the kernel posted for ITS request, in order, each once (C02); no
//! state is freed while the kernel still has the request in flight (C06).

use std::collections::{BTreeMap, BTreeSet, HashMap};
use std::fmt::Write as _;
use std::future::Future;
use std::mem::ManuallyDrop;
use std::pin::Pin;
use std::sync::{Arc, Mutex};
use std::task::{Poll, Wake, Waker};
use std::time::Duration;

use crate::out::{self, Case, Spec};
use crate::rng::Rng;
use crate::simk::{self, abi, Ev};
use crate::util::poll_once;
use crate::{alloc, sched, Args};

type BoxFut = Pin<Box<dyn Future<Output = std::io::Result<usize>> + Send>>;

/// A future under test: a write / zero-copy send, or a multishot accept stream.
enum Fut {
    Res(BoxFut),
    Accept(Pin<Box<a10::net::MultishotAccept<'static>>>),
}

#[derive(Clone, Copy, Debug, PartialEq, Eq)]
enum Kind {
    Single,
    Multi,
    TwoStep,
}

impl Kind {
    fn coq(self) -> &'static str {
        match self {
            Kind::Single => "Single",
            Kind::Multi => "Multi",
            Kind::TwoStep => "TwoStep",
        }
    }
}

/// A scripted completion: result, F_MORE, F_NOTIF.
#[derive(Clone, Copy, Debug, PartialEq, Eq)]
struct Cq {
    res: i32,
    more: bool,
    notif: bool,
}

static DATA: &[u8] = b"race payload....";

fn fake_fd(i: usize) -> i32 {
    1_000_000 + i as i32
}

/// Descriptor number the k-th completion of stream `i` reports (unique in the case).
fn accepted_fd(i: usize, k: usize) -> i32 {
    1_100_000 + (i * 64 + k) as i32
}

#[derive(Clone, Copy, Debug)]
enum Call {
    Poll(usize, u64),
    DropOp(usize),
    Yield,
}

/// Everything the threads and the segment observer share. Never locked across an a10 call.
struct Ctx {
    /// The observation stream: `-1, code` per executed segment, then what the segment did.
    ev: Vec<i128>,
    /// user_data of each operation once its submission has been seen in the queue.
    ud: Vec<Option<u64>>,
    /// Watched box address -> operation (removed at its first free: the address may be reused).
    box_of: BTreeMap<usize, usize>,
    frees: Vec<usize>,
    cancels: Vec<usize>,
    drop_called: Vec<bool>,
    woken_ids: BTreeSet<u64>,
    /// Waker of the most recent poll of each operation and whether that poll returned Pending.
    last_poll: Vec<Option<(u64, bool)>>,
    started: Vec<bool>,
    progs: Vec<Vec<Call>>,
    futs: Vec<Option<Fut>>,
    next_waker: u64,
    oracle: Option<String>,
    parked: usize,
    repolls_unwoken: usize,
    kinds: Vec<Kind>,
    scripts: Vec<Vec<Cq>>,
    /// Completions of each script the kernel thread has posted.
    script_pos: Vec<usize>,
    /// Operation chosen at each kernel step (`n_futs` = nothing to do), in order.
    kchoices: Vec<usize>,
    /// Every completion the simulated kernel posted for each operation (from its log), in order.
    posted: Vec<Vec<Cq>>,
    /// Values each future handed out, in order; whether its stream ended.
    outs: Vec<Vec<i128>>,
    ended: Vec<bool>,
    /// Times each waker id was invoked; the count of the waker of the most recent poll at that poll.
    wakes: HashMap<u64, usize>,
    wakes_at_poll: Vec<usize>,
    waker_cache: HashMap<u64, Waker>,
    accepted: Vec<ManuallyDrop<a10::AsyncFd>>,
    same_waker_repolls: usize,
    stream_polls_during_ring_poll: usize,
    drops_of_running: Vec<usize>,
    items: usize,
    in_ring_poll: bool,
    in_race: bool,
}

impl Ctx {
    fn fail(&mut self, what: String) {
        if self.oracle.is_none() {
            self.oracle = Some(what);
        }
    }
}

struct RaceWaker {
    id: u64,
    ctx: Arc<Mutex<Ctx>>,
}

impl Wake for RaceWaker {
    fn wake(self: Arc<Self>) {
        self.wake_by_ref();
    }
    fn wake_by_ref(self: &Arc<Self>) {
        let mut c = self.ctx.lock().unwrap();
        c.ev.push(30);
        c.ev.push(self.id as i128);
        c.woken_ids.insert(self.id);
        *c.wakes.entry(self.id).or_insert(0) += 1;
    }
}

/// Learn the box address of operations whose submission is in the queue (and watch it), then
/// move the kernel's and the allocator's logs into the observation stream.
fn drain(ctx: &Arc<Mutex<Ctx>>, n_futs: usize) {
    let pending: Vec<abi::Sqe> = simk::with(|s| s.pending_sqes());
    let log = simk::with(|s| s.take_log());
    let inflight_ud: Vec<u64> = simk::with(|s| s.inflight.iter().map(|r| r.sqe.user_data).collect());
    let mut c = ctx.lock().unwrap();
    let learn = |c: &mut Ctx, q: &abi::Sqe| {
        if q.opcode == abi::OP_ASYNC_CANCEL {
            return;
        }
        let i = (q.fd - fake_fd(0)) as usize;
        if q.fd >= fake_fd(0) && i < n_futs && c.ud[i].is_none() {
            c.ud[i] = Some(q.user_data);
            let addr = (q.user_data & !1) as usize;
            alloc::watch(addr);
            c.box_of.insert(addr, i);
        }
    };
    for q in &pending {
        learn(&mut c, q);
    }
    for e in log {
        match e {
            Ev::Consumed { sqe, .. } => {
                if sqe.opcode == abi::OP_ASYNC_CANCEL {
                    let target = c.ud.iter().position(|u| *u == Some(sqe.addr));
                    c.ev.push(21);
                    c.ev.push(target.map_or(-1, |t| t as i128));
                    match target {
                        None => c.fail(format!("a cancellation request names user_data {:#x}, which is no operation's", sqe.addr)),
                        Some(t) => {
                            c.cancels[t] += 1;
                            if !c.drop_called[t] {
                                c.fail(format!("operation {t} was cancelled although its future was not dropped"));
                            }
                            if c.cancels[t] > 1 {
                                let k = c.cancels[t];
                                c.fail(format!("operation {t} got {k} cancellation requests"));
                            }
                            if sqe.user_data != 2 || sqe.flags & abi::SQE_CQE_SKIP_SUCCESS == 0 {
                                c.fail("cancellation request without the bookkeeping user_data / CQE_SKIP_SUCCESS".into());
                            }
                        }
                    }
                } else {
                    learn(&mut c, &sqe);
                    let i = (sqe.fd - fake_fd(0)) as usize;
                    c.ev.push(20);
                    c.ev.push(if sqe.fd >= fake_fd(0) && i < n_futs { i as i128 } else { -1 });
                }
            }
            Ev::Posted { cqe, .. } => {
                if let Some(t) = c.ud.iter().position(|u| *u == Some(cqe.user_data)) {
                    c.posted[t].push(Cq { res: cqe.res, more: cqe.flags & abi::CQE_F_MORE != 0, notif: cqe.flags & abi::CQE_F_NOTIF != 0 });
                }
            }
            Ev::Corrupt { what } => c.fail(what),
            _ => {}
        }
    }
    for addr in alloc::take_freed() {
        if let Some(op) = c.box_of.remove(&addr) {
            c.frees[op] += 1;
            c.ev.push(40);
            c.ev.push(op as i128);
            // C06 / C01: the kernel must be done with the request (its final completion posted).
            if let Some(ud) = c.ud[op] {
                let queued = pending.iter().any(|q| q.opcode != abi::OP_ASYNC_CANCEL && q.user_data == ud);
                if inflight_ud.contains(&ud) || queued {
                    let k = c.kinds[op];
                    let n = c.posted[op].len();
                    c.fail(format!(
                        "the state of operation {op} ({k:?}) was freed while the kernel still has its request in flight ({n} completion(s) posted so far, none of them final): a later completion is dispatched into freed memory"
                    ));
                }
            }
        }
    }
}

fn ring_thread(ring_cell: &Arc<Mutex<Option<a10::Ring>>>, ctx: &Arc<Mutex<Ctx>>, polls: usize) -> Box<dyn FnOnce() + Send> {
    let ring_cell = ring_cell.clone();
    let ctx = ctx.clone();
    Box::new(move || {
        if polls == 0 {
            return;
        }
        let mut ring = ring_cell.lock().unwrap().take().unwrap();
        // A panic inside `Ring::poll` (e.g. the deadlock detector: a mutex inside freed memory) must
        // not drop the ring while unwinding (a second panic would abort the process): put it back.
        let res = std::panic::catch_unwind(std::panic::AssertUnwindSafe(|| {
            for _ in 0..polls {
                ctx.lock().unwrap().in_ring_poll = true;
                let _ = ring.poll(Some(Duration::ZERO));
                ctx.lock().unwrap().in_ring_poll = false;
            }
        }));
        *ring_cell.lock().unwrap() = Some(ring);
        if let Err(p) = res {
            std::panic::resume_unwind(p);
        }
    })
}

/// The kernel as a scheduled thread: every step (scheduling point 200, the model's `K i`) posts
/// the next scripted completion of one request in flight. `steps = None`: until nothing is left.
fn kernel_thread(ctx: &Arc<Mutex<Ctx>>, seed: u64, steps: Option<usize>) -> Box<dyn FnOnce() + Send> {
    let ctx = ctx.clone();
    Box::new(move || {
        let mut kr = Rng::new(seed);
        let mut done = 0;
        loop {
            if steps.is_some_and(|n| done >= n) {
                return;
            }
            let candidates = |c: &Ctx| -> Vec<(usize, u64)> {
                (0..c.kinds.len())
                    .filter(|&i| c.script_pos[i] < c.scripts[i].len())
                    .filter_map(|i| c.ud[i].and_then(|ud| simk::with(|s| s.find_req_by_user_data(ud)).map(|req| (i, req))))
                    .collect()
            };
            {
                let c = ctx.lock().unwrap();
                let used_up = (0..c.kinds.len()).all(|i| c.script_pos[i] >= c.scripts[i].len());
                if used_up || (steps.is_none() && candidates(&c).is_empty()) {
                    return;
                }
            }
            sched::yield_point(200);
            done += 1;
            let mut c = ctx.lock().unwrap();
            let cand = candidates(&c);
            let n = c.kinds.len();
            if cand.is_empty() || (steps.is_some() && kr.chance(1, 8)) {
                c.kchoices.push(n);
                continue;
            }
            let (i, req) = cand[kr.below(cand.len() as u64) as usize];
            let cq = c.scripts[i][c.script_pos[i]];
            c.script_pos[i] += 1;
            c.kchoices.push(i);
            drop(c);
            let flags = if cq.more { abi::CQE_F_MORE } else { 0 } | if cq.notif { abi::CQE_F_NOTIF } else { 0 };
            simk::with(|s| s.complete(req, cq.res, flags));
        }
    })
}

/// One API call of future thread `t` on operation `i`, recorded in the thread's program.
/// `fresh`: with a new waker; otherwise with the waker object of the previous poll of `i`.
fn do_poll(ctx: &Arc<Mutex<Ctx>>, t: usize, i: usize, fresh: bool) {
    let (mut f, w, waker) = {
        let mut c = ctx.lock().unwrap();
        let f = c.futs[i].take().unwrap();
        let w = match c.last_poll[i] {
            Some((lw, _)) if !fresh => {
                c.same_waker_repolls += 1;
                lw
            }
            _ => {
                let w = c.next_waker;
                c.next_waker += 1;
                w
            }
        };
        c.progs[t].push(Call::Poll(i, w));
        if let Some((lw, true)) = c.last_poll[i] {
            if c.wakes.get(&lw).copied().unwrap_or(0) == c.wakes_at_poll[i] {
                c.repolls_unwoken += 1;
            }
        }
        if c.kinds[i] == Kind::Multi && c.in_ring_poll && c.in_race && c.started[i] {
            c.stream_polls_during_ring_poll += 1;
        }
        let waker = match c.waker_cache.get(&w) {
            Some(wk) => wk.clone(),
            None => {
                let wk = Waker::from(Arc::new(RaceWaker { id: w, ctx: ctx.clone() }));
                c.waker_cache.insert(w, wk.clone());
                wk
            }
        };
        (f, w, waker)
    };
    // 10 pending, 11 ready with a value, 12 error, 13 end of the stream
    let polled = std::panic::catch_unwind(std::panic::AssertUnwindSafe(|| match &mut f {
        Fut::Res(f) => match poll_once(f.as_mut(), &waker) {
            Poll::Pending => (10, 0, None),
            Poll::Ready(Ok(n)) => (11, n as i128, None),
            Poll::Ready(Err(e)) => (12, -(e.raw_os_error().unwrap_or(99_999) as i128), None),
        },
        Fut::Accept(f) => {
            let mut cx = std::task::Context::from_waker(&waker);
            match f.as_mut().poll_next(&mut cx) {
                Poll::Pending => (10, 0, None),
                Poll::Ready(None) => (13, 0, None),
                Poll::Ready(Some(Ok(fd))) => {
                    let raw = fd.as_fd().map(|b| std::os::fd::AsRawFd::as_raw_fd(&b)).unwrap_or(-1);
                    (11, raw as i128, Some(fd))
                }
                Poll::Ready(Some(Err(e))) => (12, -(e.raw_os_error().unwrap_or(99_999) as i128), None),
            }
        }
    }));
    let (code, val, afd): (i128, i128, Option<a10::AsyncFd>) = match polled {
        Ok(x) => x,
        Err(p) => {
            // The state is unknown after a panic: leak the future (dropping it could panic again).
            std::mem::forget(f);
            let mut c = ctx.lock().unwrap();
            c.ev.push(14);
            c.fail(format!("polling operation {i} panicked"));
            drop(c);
            std::panic::resume_unwind(p);
        }
    };
    drop(waker);
    // Still in the segment in which the poll returned: a submission queued by it is pending.
    let queued = simk::with(|s| s.pending_sqes()).iter().any(|q| q.opcode != abi::OP_ASYNC_CANCEL && q.fd == fake_fd(i));
    let mut c = ctx.lock().unwrap();
    if queued {
        c.started[i] = true;
    }
    if let Some(fd) = afd {
        c.accepted.push(ManuallyDrop::new(fd));
    }
    c.ev.push(code);
    c.last_poll[i] = Some((w, code == 10));
    c.wakes_at_poll[i] = c.wakes.get(&w).copied().unwrap_or(0);
    let kind = c.kinds[i];
    match code {
        10 => {
            if !c.started[i] {
                c.parked += 1;
            }
            c.futs[i] = Some(f);
        }
        11 | 12 => {
            c.ev.push(val);
            c.outs[i].push(val);
            // C02: the value is the next result the kernel posted for THIS request; a single-shot /
            // two-step operation resolves only after its final completion, with the result of its
            // (first) completion that is not a notification.
            let k = c.outs[i].len() - 1;
            let posted = c.posted[i].clone();
            if kind == Kind::Multi {
                c.items += 1;
                match posted.get(k) {
                    Some(p) if p.res as i128 == val && code == 11 => {}
                    Some(p) => {
                        let want = p.res;
                        let all: Vec<i32> = posted.iter().map(|p| p.res).collect();
                        c.fail(format!("stream {i}: item {k} handed out is {val}, the kernel's completion {k} for this request carried {want} (posted so far, in order: {all:?})"));
                    }
                    None => c.fail(format!("stream {i}: item {k} = {val} was handed out but the kernel posted only {} completion(s) for this request", posted.len())),
                }
                c.futs[i] = Some(f);
            } else {
                let first = posted.iter().find(|p| !p.notif).map(|p| p.res as i128);
                let final_posted = posted.iter().any(|p| !p.more);
                if !final_posted {
                    c.fail(format!("operation {i} ({kind:?}) resolved with {val} before its final completion was posted ({} posted)", posted.len()));
                } else if first != Some(val) || code != 11 {
                    c.fail(format!("operation {i} ({kind:?}) finished with {val} (code {code}), the kernel completed its request with {first:?}"));
                }
                // The finished future is dropped: a call of its own (State::drop takes the mutex).
                c.progs[t].push(Call::DropOp(i));
                c.drop_called[i] = true;
                drop(c);
                drop(f);
            }
        }
        _ => {
            // End of the stream: only after the final completion, everything posted handed out.
            let posted = c.posted[i].clone();
            if c.ended[i] {
                c.fail(format!("stream {i} ended twice"));
            }
            c.ended[i] = true;
            if !posted.iter().any(|p| !p.more) || c.outs[i].len() != posted.len() {
                let n_out = c.outs[i].len();
                c.fail(format!("stream {i} ended after handing out {n_out} item(s) although the kernel posted {} completion(s) (final posted: {})", posted.len(), posted.iter().any(|p| !p.more)));
            }
            c.progs[t].push(Call::DropOp(i));
            c.drop_called[i] = true;
            drop(c);
            drop(f);
        }
    }
}

fn do_drop(ctx: &Arc<Mutex<Ctx>>, t: usize, i: usize) {
    let f = {
        let mut c = ctx.lock().unwrap();
        let f = c.futs[i].take().unwrap();
        c.progs[t].push(Call::DropOp(i));
        c.drop_called[i] = true;
        if c.in_race {
            if let Some(ud) = c.ud[i] {
                if simk::with(|s| s.find_req_by_user_data(ud)).is_some() {
                    let k = c.kinds[i] as usize;
                    c.drops_of_running[k] += 1;
                }
            }
        }
        f
    };
    drop(f);
}

pub fn one_case(r: &mut Rng, silent: &Arc<Mutex<Option<String>>>, debug: bool) -> Case {
    alloc::enable(false);
    alloc::unwatch_all();
    let _ = alloc::take_bad_frees();
    let _ = alloc::take_freed();
    let cap = *r.pick(&[1u32, 1, 2, 2, 4]);
    let n_fthreads = if r.chance(1, 3) { 2 } else { 1 };
    let n_futs = r.range(2, 5) as usize;
    let ring_polls = r.range(1, 5) as usize;
    let rounds = r.range(1, 3) as usize;
    let drop_mode = *r.pick(&[0u64, 0, 1, 2]); // none / some / many drops in the race
    let with_drops = drop_mode > 0;
    let drop_pct = [0u64, 25, 66][drop_mode as usize];
    let impatient = *r.pick(&[0u64, 20, 50]);
    let preempt = *r.pick(&[10u64, 25, 40, 60]);
    // One case in five: the auto-completing kernel with single-shot operations only (every request
    // completes with 7 inside the system call that consumes it); otherwise scripted completions
    // posted by the kernel thread, all kinds mixed.
    let auto = r.chance(1, 5);
    let same_waker_pct = *r.pick(&[0u64, 30, 60]);
    let mut kinds: Vec<Kind> = Vec::new();
    let mut scripts: Vec<Vec<Cq>> = Vec::new();
    let mut canc: Vec<bool> = Vec::new();
    let kind_bias = r.below(4); // 0 mixed, 1 mostly streams, 2 mostly two-step, 3 mostly single-shot
    for i in 0..n_futs {
        let kind = if auto {
            Kind::Single
        } else {
            let pool: &[Kind] = match kind_bias {
                1 => &[Kind::Multi, Kind::Multi, Kind::Multi, Kind::TwoStep, Kind::Single],
                2 => &[Kind::TwoStep, Kind::TwoStep, Kind::TwoStep, Kind::Multi, Kind::Single],
                3 => &[Kind::Single, Kind::Single, Kind::Single, Kind::Multi, Kind::TwoStep],
                _ => &[Kind::Single, Kind::Multi, Kind::TwoStep],
            };
            *r.pick(pool)
        };
        let script = if auto {
            Vec::new()
        } else {
            match kind {
                Kind::Single => vec![Cq { res: 100 + 7 * i as i32, more: false, notif: false }],
                Kind::Multi => {
                    // k results with F_MORE, then (two times in three) a final one, itself a result
                    let k = r.below(5) as usize;
                    let mut v: Vec<Cq> = (0..k).map(|j| Cq { res: accepted_fd(i, j), more: true, notif: false }).collect();
                    if r.chance(2, 3) {
                        v.push(Cq { res: accepted_fd(i, k), more: false, notif: false });
                    }
                    v
                }
                Kind::TwoStep => {
                    if r.chance(1, 8) {
                        // an old kernel / a send that fails early: one completion, no notification
                        vec![Cq { res: 200 + 7 * i as i32, more: false, notif: false }]
                    } else {
                        vec![Cq { res: 200 + 7 * i as i32, more: true, notif: false }, Cq { res: 0, more: false, notif: true }]
                    }
                }
            }
        };
        kinds.push(kind);
        scripts.push(script);
        canc.push(r.chance(2, 3));
    }
    // Kernel steps in the race: up to three per scripted completion (a step finds nothing to do while
    // no request with completions left is in flight); the thread stops when every script is used up.
    let k_steps = if auto { 0 } else { (scripts.iter().map(Vec::len).sum::<usize>() as u64 * r.range(0, 3) + r.below(4)) as usize };
    let n_threads = 2 + n_fthreads; // ring, futures, kernel
    let prefix: Vec<usize> = (0..500).map(|_| if r.below(100) < preempt { 1 + r.below(n_threads as u64 - 1) as usize } else { 0 }).collect();
    let thread_seeds: Vec<u64> = (0..n_fthreads + 1).map(|_| r.next()).collect();
    simk::configure(simk::SetupConfig {
        sq_start: r.next() as u32,
        cq_start: r.next() as u32,
        auto_complete: if auto { Some((7, 0)) } else { None },
        ..Default::default()
    });
    let ring = a10::Ring::config().with_submission_queue_size(cap).with_completion_queue_size(64).build().expect("ring on the simulated kernel");
    let ring_fd = simk::with(|s| s.fd);
    let sq = ring.sq();
    let mut fds: Vec<Box<ManuallyDrop<a10::AsyncFd>>> = Vec::new();
    let mut futs: Vec<Option<Fut>> = Vec::new();
    for i in 0..n_futs {
        simk::add_fake_fd(fake_fd(i));
        simk::with(|s| s.cancel_policy.push((fake_fd(i), canc[i])));
        for c in &scripts[i] {
            if kinds[i] == Kind::Multi {
                simk::add_fake_fd(c.res);
            }
        }
        let fd = Box::new(ManuallyDrop::new(unsafe { a10::AsyncFd::from_raw_fd(fake_fd(i), sq.clone()) }));
        let fd_ref: &'static a10::AsyncFd = unsafe { &*(&**fd as *const a10::AsyncFd) };
        fds.push(fd);
        futs.push(Some(match kinds[i] {
            Kind::Single => Fut::Res(Box::pin(fd_ref.write(DATA))),
            Kind::TwoStep => Fut::Res(Box::pin(fd_ref.send(DATA).zc())),
            Kind::Multi => Fut::Accept(Box::pin(fd_ref.multishot_accept())),
        }));
    }
    let ctx = Arc::new(Mutex::new(Ctx {
        ev: Vec::new(),
        ud: vec![None; n_futs],
        box_of: BTreeMap::new(),
        frees: vec![0; n_futs],
        cancels: vec![0; n_futs],
        drop_called: vec![false; n_futs],
        woken_ids: BTreeSet::new(),
        last_poll: vec![None; n_futs],
        started: vec![false; n_futs],
        progs: vec![Vec::new(); n_fthreads],
        futs,
        next_waker: 1,
        oracle: None,
        parked: 0,
        repolls_unwoken: 0,
        kinds: kinds.clone(),
        scripts: scripts.clone(),
        script_pos: vec![0; n_futs],
        kchoices: Vec::new(),
        posted: vec![Vec::new(); n_futs],
        outs: vec![Vec::new(); n_futs],
        ended: vec![false; n_futs],
        wakes: HashMap::new(),
        wakes_at_poll: vec![0; n_futs],
        waker_cache: HashMap::new(),
        accepted: Vec::new(),
        same_waker_repolls: 0,
        stream_polls_during_ring_poll: 0,
        drops_of_running: vec![0; 3],
        items: 0,
        in_ring_poll: false,
        in_race: true,
    }));
    let ring_cell = Arc::new(Mutex::new(Some(ring)));
    let _ = simk::with(|s| s.take_log());
    {
        let ctx = ctx.clone();
        sched::set_observer(Some(Box::new(move |_t, point| {
            drain(&ctx, n_futs);
            let mut c = ctx.lock().unwrap();
            c.ev.push(-1);
            c.ev.push(point as i128);
        })));
    }
    let mut exec: Vec<(usize, u32)> = Vec::new();
    let mut preemptions = 0;
    let mut panicked: Option<String> = None;
    let mut acc = |out: sched::Outcome, exec: &mut Vec<(usize, u32)>| {
        preemptions += out.trace.iter().filter(|t| t.2).count();
        if panicked.is_none() {
            panicked = out.panicked.clone();
        }
        exec.extend(out.exec);
    };
    let run_phase = |threads: Vec<Box<dyn FnOnce() + Send>>, prefix: &[usize]| -> sched::Outcome {
        let out = sched::run(threads, prefix);
        drain(&ctx, n_futs);
        out
    };
    let idle = || -> Box<dyn FnOnce() + Send> { Box::new(|| {}) };
    // Thread ids: 0 the ring, 1..=n_fthreads the futures, n_fthreads+1 the kernel.
    let ring_only = |polls: usize| -> Vec<Box<dyn FnOnce() + Send>> {
        let mut v: Vec<Box<dyn FnOnce() + Send>> = vec![ring_thread(&ring_cell, &ctx, polls)];
        for _ in 0..n_fthreads + 1 {
            v.push(idle());
        }
        v
    };
    let kernel_only = |seed: u64| -> Vec<Box<dyn FnOnce() + Send>> {
        let mut v: Vec<Box<dyn FnOnce() + Send>> = Vec::new();
        for _ in 0..n_fthreads + 1 {
            v.push(idle());
        }
        v.push(if auto { idle() } else { kernel_thread(&ctx, seed, None) });
        v
    };

    // A future thread: `rounds + 1` passes over its operations: poll what was never polled, what was
    // woken, a stream that just handed out an item; re-poll unwoken (impatient); drop mid-race.
    let future_thread = |t: usize, seed: u64, rounds: usize| -> Box<dyn FnOnce() + Send> {
        let ctx = ctx.clone();
        Box::new(move || {
            let mut tr = Rng::new(seed);
            for round in 0..=rounds {
                for i in (0..n_futs).filter(|i| i % n_fthreads == t) {
                    // 0 skip, 1 poll, 2 drop
                    let action = {
                        let c = ctx.lock().unwrap();
                        if c.futs[i].is_none() {
                            0
                        } else {
                            match c.last_poll[i] {
                                None => {
                                    if with_drops && tr.chance(1, 10) {
                                        2
                                    } else {
                                        1
                                    }
                                }
                                // a stream that handed out an item: usually asked for the next one
                                Some((_, false)) => {
                                    if tr.below(100) < drop_pct / 2 {
                                        2
                                    } else if tr.chance(4, 5) {
                                        1
                                    } else {
                                        0
                                    }
                                }
                                Some((w, true)) => {
                                    let woken = c.wakes.get(&w).copied().unwrap_or(0) > c.wakes_at_poll[i];
                                    if woken || tr.below(100) < impatient {
                                        1
                                    } else if tr.below(100) < drop_pct {
                                        2
                                    } else {
                                        0
                                    }
                                }
                            }
                        }
                    };
                    match action {
                        1 => {
                            let fresh = tr.below(100) >= same_waker_pct;
                            do_poll(&ctx, t, i, fresh)
                        }
                        2 => do_drop(&ctx, t, i),
                        _ => {}
                    }
                }
                if round < rounds {
                    ctx.lock().unwrap().progs[t].push(Call::Yield);
                    sched::yield_point(100);
                }
            }
        })
    };

    // ---- phase 1: the race -----------------------------------------------------------------------
    let mut threads: Vec<Box<dyn FnOnce() + Send>> = vec![ring_thread(&ring_cell, &ctx, ring_polls)];
    for t in 0..n_fthreads {
        threads.push(future_thread(t, thread_seeds[t], rounds));
    }
    threads.push(if auto { idle() } else { kernel_thread(&ctx, thread_seeds[n_fthreads], Some(k_steps)) });
    let o = run_phase(threads, &prefix);
    acc(o, &mut exec);
    let race_len = exec.len();
    // A future call overlapped the dispatch of a completion of the same operation: the ring thread
    // found the operation's mutex taken.
    let overlap = exec.iter().any(|e| e.0 == 0 && e.1 == a10::verif::points::LOCK_SPIN);
    let fut_spin = exec.iter().any(|e| e.0 != 0 && e.1 == a10::verif::points::LOCK_SPIN);

    // The wake-up oracle, at a point where everything posted has been dispatched: a future whose most
    // recent poll returned Pending and which is READY (single-shot / two-step: final completion posted;
    // stream: a posted completion that was not handed out) or was waiting for a submission slot has
    // had the waker of that poll invoked since.
    let wake_oracle = |settle_polls: usize| {
        let mut c = ctx.lock().unwrap();
        for i in 0..n_futs {
            if let (true, Some((w, true))) = (c.futs[i].is_some(), c.last_poll[i]) {
                let woken = c.wakes.get(&w).copied().unwrap_or(0) > c.wakes_at_poll[i];
                let parked = !c.started[i];
                let ready = if c.kinds[i] == Kind::Multi { c.posted[i].len() > c.outs[i].len() } else { c.posted[i].iter().any(|p| !p.more) };
                if !woken && (parked || ready) {
                    let kind = c.kinds[i];
                    let n = c.posted[i].len();
                    c.fail(format!(
                        "future {i} ({kind:?}) returned Pending (waker {w}) and that waker was not invoked since, although Ring::poll was called {} more times afterwards ({}); an executor that re-polls only when woken is stuck",
                        settle_polls,
                        if parked { "it was waiting for a submission slot".to_string() } else { format!("{n} completion(s) of it were posted and processed") }
                    ));
                }
            }
        }
    };

    // ---- phase 2: the kernel posts some more (scripted kernel), then the ring alone ------------------
    let more_steps = if auto { 0 } else { r.below(4) as usize };
    let mut threads = kernel_only(0);
    threads[n_fthreads + 1] = if auto { idle() } else { kernel_thread(&ctx, thread_seeds[n_fthreads] ^ 1, Some(more_steps)) };
    let o = run_phase(threads, &[]);
    acc(o, &mut exec);
    // Every poll wakes as many parked wakers as there are free slots (at least one here, the queue
    // being empty after the first poll), oldest first; a future re-polled while the queue was full
    // has left one waker per poll on the list.
    let settle_polls = n_futs + 2 + ctx.lock().unwrap().parked;
    let o = run_phase(ring_only(settle_polls), &[]);
    acc(o, &mut exec);
    wake_oracle(settle_polls);

    // ---- phase 3: a second race: the woken futures are polled again (stream items, results), more
    //      completions are posted and dispatched meanwhile ------------------------------------------------
    let ring_polls_b = r.range(1, 4) as usize;
    let rounds_b = r.range(1, 4) as usize;
    let prefix_b: Vec<usize> = (0..500).map(|_| if r.below(100) < preempt { 1 + r.below(n_threads as u64 - 1) as usize } else { 0 }).collect();
    ctx.lock().unwrap().in_race = true;
    let mut threads: Vec<Box<dyn FnOnce() + Send>> = vec![ring_thread(&ring_cell, &ctx, ring_polls_b)];
    for t in 0..n_fthreads {
        threads.push(future_thread(t, thread_seeds[t] ^ 0xB, rounds_b));
    }
    threads.push(if auto { idle() } else { kernel_thread(&ctx, thread_seeds[n_fthreads] ^ 0xB, Some(3 * k_steps + 4)) });
    let o = run_phase(threads, &prefix_b);
    acc(o, &mut exec);
    ctx.lock().unwrap().in_race = false;
    let overlap = overlap || exec.iter().skip(race_len).any(|e| e.0 == 0 && e.1 == a10::verif::points::LOCK_SPIN);

    // ---- phase 4: the kernel finishes the scripts of what is in flight, then the ring alone ----------
    let o = run_phase(kernel_only(thread_seeds[n_fthreads] ^ 3), &[]);
    acc(o, &mut exec);
    let settle_polls_b = n_futs + 2 + ctx.lock().unwrap().parked;
    let o = run_phase(ring_only(settle_polls_b), &[]);
    acc(o, &mut exec);
    wake_oracle(settle_polls_b);

    // ---- phase 5: drop what is left --------------------------------------------------------------
    let mut threads: Vec<Box<dyn FnOnce() + Send>> = vec![idle()];
    for t in 0..n_fthreads {
        let ctx = ctx.clone();
        threads.push(Box::new(move || {
            for i in (0..n_futs).filter(|i| i % n_fthreads == t) {
                if ctx.lock().unwrap().futs[i].is_some() {
                    do_drop(&ctx, t, i);
                }
            }
        }));
    }
    threads.push(idle());
    let o = run_phase(threads, &[]);
    acc(o, &mut exec);

    // ---- phase 6: the ring alone, reaping; the kernel finishes what survived its cancellation --------
    let o = run_phase(ring_only(2), &[]);
    acc(o, &mut exec);
    let o = run_phase(kernel_only(thread_seeds[n_fthreads] ^ 2), &[]);
    acc(o, &mut exec);
    let o = run_phase(ring_only(2), &[]);
    acc(o, &mut exec);
    sched::set_observer(None);

    let total_polls = ring_polls + settle_polls + ring_polls_b + settle_polls_b + 4;
    let (sq_pending, cq_ready, inflight) = simk::with_fd(ring_fd, |s| {
        s.check_counters();
        (s.sq_pending() as i128, s.cq_ready() as i128, s.inflight.len() as i128)
    })
    .unwrap_or((0, 0, 0));
    let mut obs: Vec<i128>;
    let progs: Vec<Vec<Call>>;
    let kchoices: Vec<usize>;
    {
        let mut c = ctx.lock().unwrap();
        obs = std::mem::take(&mut c.ev);
        progs = c.progs.clone();
        kchoices = c.kchoices.clone();
        obs.extend([-2, 0, 0, sq_pending, cq_ready, inflight]);
        obs.push(-3);
        for i in 0..n_futs {
            obs.push(if c.frees[i] == 0 { 1 } else { 0 });
        }
    }
    let mut oracle: Option<String> = ctx.lock().unwrap().oracle.take();
    if let Some(p) = &panicked {
        let msg = silent.lock().unwrap().take().unwrap_or_default();
        oracle.get_or_insert(format!("a thread panicked: {p} {msg}"));
    }

    // ---- teardown (not modelled) and the reclamation oracle ----------------------------------------
    drop(sq);
    let ring = ring_cell.lock().unwrap().take();
    let _ = std::panic::catch_unwind(std::panic::AssertUnwindSafe(move || drop(ring)));
    drain(&ctx, n_futs);
    {
        let c = ctx.lock().unwrap();
        for i in 0..n_futs {
            if c.ud[i].is_some() && c.frees[i] != 1 && oracle.is_none() {
                oracle = Some(format!(
                    "the state of operation {i} ({:?}) was freed {} times although its future and the ring were dropped ({})",
                    c.kinds[i],
                    c.frees[i],
                    if c.frees[i] == 0 { "leaked" } else { "freed more than once" }
                ));
            }
        }
        if oracle.is_none() {
            oracle = c.oracle.clone();
        }
    }
    let double = alloc::take_bad_frees();
    if double > 0 && oracle.is_none() {
        oracle = Some(format!("{double} operation state(s) were freed twice"));
    }
    alloc::unwatch_all();
    for fd in fds {
        drop(ManuallyDrop::into_inner(*fd));
    }
    simk::retire(ring_fd);

    // ---- the case as a Coq term ------------------------------------------------------------------
    let ktid = n_fthreads + 1;
    let mut events = String::new();
    let mut js = String::new();
    let mut kpos = 0;
    for (k, (t, p)) in exec.iter().enumerate() {
        if k > 0 {
            events.push_str("; ");
            js.push(',');
        }
        if *t == ktid {
            let i = kchoices.get(kpos).copied().unwrap_or(n_futs);
            kpos += 1;
            let _ = write!(events, "K {i}%nat");
            let _ = write!(js, "\"K{i}\"");
        } else {
            // (a use after free in the code under test can scribble over the execution log: keep the
            // term small enough for the model to evaluate; it will disagree anyway)
            let t = (*t).min(99);
            let _ = write!(events, "T {t}%nat");
            let _ = write!(js, "\"T{t}@{p}\"");
        }
    }
    let coq_call = |c: &Call| match c {
        Call::Poll(i, w) => format!("Poll {i}%nat {w}%N"),
        Call::DropOp(i) => format!("DropOp {i}%nat"),
        Call::Yield => "Yield".to_string(),
    };
    let js_call = |c: &Call| match c {
        Call::Poll(i, w) => format!("\"poll(op{i},waker{w})\""),
        Call::DropOp(i) => format!("\"drop(op{i})\""),
        Call::Yield => "\"yield\"".to_string(),
    };
    let coq_cq = |c: &Cq| format!("{{| c_res := ({})%Z; c_more := {}; c_notif := {} |}}", c.res, c.more, c.notif);
    let js_cq = |c: &Cq| format!("{{\"res\":{},\"more\":{},\"notif\":{}}}", c.res, c.more, c.notif);
    let coq_progs: Vec<String> = progs.iter().map(|p| format!("[{}]", p.iter().map(coq_call).collect::<Vec<_>>().join("; "))).collect();
    let js_progs: Vec<String> = progs.iter().map(|p| format!("[{}]", p.iter().map(js_call).collect::<Vec<_>>().join(","))).collect();
    let coq_scripts: Vec<String> = scripts.iter().map(|p| format!("[{}]", p.iter().map(coq_cq).collect::<Vec<_>>().join("; "))).collect();
    let js_scripts: Vec<String> = scripts.iter().map(|p| format!("[{}]", p.iter().map(js_cq).collect::<Vec<_>>().join(","))).collect();
    let coq = format!(
        "{{| rc_cap := {cap}%N; rc_auto := {auto}; rc_nops := {n_futs}%nat; rc_kinds := [{}]; rc_canc := [{}]; rc_scripts := [{}]; rc_polls := {total_polls}%nat; rc_progs := [{}]; rc_events := [{events}] |}}",
        kinds.iter().map(|k| k.coq()).collect::<Vec<_>>().join("; "),
        canc.iter().map(|b| b.to_string()).collect::<Vec<_>>().join("; "),
        coq_scripts.join("; "),
        coq_progs.join("; ")
    );
    let json = format!(
        "{{\"sq_entries\":{cap},\"auto_complete\":{auto},\"futures\":{n_futs},\"kinds\":[{}],\"cancel_wins\":[{}],\"scripts\":[{}],\"future_threads\":{n_fthreads},\"ring_polls_in_race\":{ring_polls},\"kernel_steps_in_race\":{k_steps},\"rounds\":{rounds},\"drops_in_race\":{drop_mode},\"programs\":[{}],\"race_steps\":{race_len},\"schedule\":[{js}]}}",
        kinds.iter().map(|k| format!("\"{}\"", k.coq())).collect::<Vec<_>>().join(","),
        canc.iter().map(|b| b.to_string()).collect::<Vec<_>>().join(","),
        js_scripts.join(","),
        js_progs.join(",")
    );
    if debug {
        println!("{json}");
        println!("obs {:?}", obs);
        println!("oracle {:?}", oracle);
    }
    let mut c = ctx.lock().unwrap();
    let (parked, repolls_unwoken) = (c.parked, c.repolls_unwoken);
    let has = |k: Kind| kinds.contains(&k);
    let dropped_running: usize = c.drops_of_running.iter().sum();
    let tags = vec![
        format!("cap:{cap}"),
        format!("kernel:{}", if auto { "auto-completing" } else { "scripted" }),
        format!("kinds:{}{}{}", if has(Kind::Single) { "S" } else { "" }, if has(Kind::Multi) { "M" } else { "" }, if has(Kind::TwoStep) { "T" } else { "" }),
        format!("future_threads:{n_fthreads}"),
        format!("preemptions:{}", preemptions.min(8)),
        format!("call_overlaps_dispatch_of_same_op:{overlap}"),
        format!("stream_poll_during_ring_poll_of_started_stream:{}", c.stream_polls_during_ring_poll > 0),
        format!("stream_items_handed_out:{}", c.items.min(6)),
        format!("streams_ended:{}", c.ended.iter().filter(|e| **e).count().min(3)),
        format!("future_thread_spun:{fut_spin}"),
        format!("parked_wakers:{}", parked.min(4)),
        format!("repolls_with_replaced_waker:{}", repolls_unwoken.min(4)),
        format!("repolls_with_same_waker:{}", c.same_waker_repolls.min(4)),
        format!("drops_in_race:{}", ["none", "some", "many"][drop_mode as usize]),
        format!("drops_of_running_in_race:{}", dropped_running.min(4)),
        format!("drop_of_running_single_in_race:{}", c.drops_of_running[0] > 0),
        format!("drop_of_running_stream_in_race:{}", c.drops_of_running[1] > 0),
        format!("drop_of_running_two_step_in_race:{}", c.drops_of_running[2] > 0),
        format!("cancels_consumed:{}", c.cancels.iter().sum::<usize>().min(3)),
    ];
    // Break the reference cycles ctx -> wakers / futures -> ctx.
    c.waker_cache.clear();
    c.futs.clear();
    drop(c);
    Case { coq, obs, json, oracle, known: None, tags, nontrivial: preemptions > 0 }
}

pub fn run(args: &Args) -> i32 {
    simk::install();
    let silent: Arc<Mutex<Option<String>>> = Arc::new(Mutex::new(None));
    let s2 = silent.clone();
    std::panic::set_hook(Box::new(move |info| {
        *s2.lock().unwrap() = Some(info.to_string());
    }));
    let root = Rng::new(args.seed ^ 0xC03C_06AC_E5ED);
    if std::env::var("A10H_DEBUG").is_ok() {
        for i in 0..args.n.unwrap_or(3) {
            let mut r = root.fork(i as u64);
            one_case(&mut r, &silent, true);
        }
        return 0;
    }
    let n = args.n.unwrap_or(if args.thorough { 24_000 } else { 1_500 });
    let cases = out::run_forked(&args.out, n, 12, &|i| {
        let mut r = root.fork(i as u64);
        one_case(&mut r, &silent, false)
    });
    let _ = std::panic::take_hook();
    let spec = Spec { prop: "C03R", imports: &["Model.OpRace"], run_fn: "run_racecase", case_ty: "racecase", shard: 250 };
    out::write_all(&args.out, &spec, &cases, &[]);
    0
}

//! C04 — submission queue integrity under concurrent submitters and counter wrap-around.
//!
//! Real threads, each polling real `write` futures once (every first poll is one
//! `Submissions::add`), run one at a time under the baton scheduler; a kernel thread consumes
//! entries between their steps. The executed interleaving (thread, scheduling point) is the
//! case; the model replays it step by step.

use std::fmt::Write as _;
use std::future::Future;
use std::mem::ManuallyDrop;
use std::pin::Pin;
use std::sync::{Arc, Mutex};

use crate::out::{self, Case, Spec};
use crate::rng::Rng;
use crate::simk::{self, abi, Ev};
use crate::util::{poll_once, WakeLog};
use crate::{sched, Args};

const KPOINT: u32 = 100;
const START_POOL: [u32; 8] = [0, 1, 0x7FFF_FFFF, 0x8000_0000, u32::MAX - 3, u32::MAX - 2, u32::MAX - 1, u32::MAX];
static DATA: &[u8] = b"payload";

type BoxFut = Pin<Box<dyn Future<Output = std::io::Result<usize>> + Send>>;

async fn sync_as_usize(fd: &'static a10::AsyncFd) -> std::io::Result<usize> {
    fd.sync_data().await.map(|()| 0)
}

/// A buffer whose `parts` panics: the fill closure of its submission unwinds in the middle of
/// `Submissions::add` (slot reset, nothing filled). Nothing may reach the kernel for it.
struct FaultyBuf;
unsafe impl a10::io::Buf for FaultyBuf {
    unsafe fn parts(&self) -> (*const u8, u32) {
        panic!("faulty buffer")
    }
}

fn is_faulty(p: u64) -> bool {
    p >= 1000
}

/// Payloads divisible by 3 are `sync_data` operations (FSYNC with the DATASYNC flag), the others
/// writes: two kinds of entries that set different fields, so that an entry written over an
/// entry of the other kind without a reset is visible ("unmodified" part of the property).
fn is_sync(p: u64) -> bool {
    p % 3 == 0 && !is_faulty(p)
}

fn payload_fd(p: u64) -> i32 {
    1_000_000 + p as i32
}

pub fn one_case(r: &mut Rng, silent: &Arc<Mutex<Option<String>>>) -> Case {
    // What the caller asks for and what the kernel grants (the next power of two): the queue works
    // with the granted size, whatever was asked for.
    let asked: u32 = *r.pick(&[1, 2, 2, 4, 3, 3]);
    let len: u32 = asked.next_power_of_two();
    let start = if r.chance(3, 4) { *r.pick(&START_POOL) } else { r.next() as u32 };
    let n_threads = r.range(2, 3) as usize;
    let mut progs: Vec<Vec<u64>> = Vec::new();
    let mut next = 1u64;
    for _ in 0..n_threads {
        let k = r.range(1, if len >= 2 { 3 } else { 2 });
        progs.push((0..k).map(|_| { next += 1; if r.chance(1, 6) { 1000 + next } else { next } }).collect());
    }
    // Optionally pre-fill the queue (single threaded, before the race) so that it is nearly full.
    let prefill = r.below(len as u64 + 1) as usize;
    let ksteps = r.below(4) as usize;
    let preempt = *r.pick(&[5u64, 15, 30, 50]);
    let prefix: Vec<usize> = (0..80).map(|_| if r.below(100) < preempt { 1 + r.below(2) as usize } else { 0 }).collect();

    simk::configure(simk::SetupConfig { sq_start: start, cq_start: r.next() as u32, ..Default::default() });
    // The ring mode does not change how entries are queued: any thread may queue on any ring
    // (single issuer only restricts who enters the kernel).
    // A kernel-thread (SQPOLL) ring passes to_submit = 0 to enter and entering consumes nothing:
    // the kernel thread is this driver's own kernel steps.
    let mode = r.below(4);
    let cfg = a10::Ring::config().with_submission_queue_size(asked);
    let cfg = match mode {
        1 => cfg.single_issuer(),
        2 => cfg.with_kernel_thread(),
        _ => cfg,
    };
    let kthread = mode == 2;
    // The completion queue size is a separate builder setting; it must not change how the
    // submission queue is laid out.
    let cfg = if r.chance(1, 3) { cfg.with_completion_queue_size(len * *r.pick(&[1u32, 2, 4])) } else { cfg };
    let ring = cfg.build().expect("ring on the simulated kernel");
    let ring_fd = simk::with(|s| s.fd);
    simk::with(|s| s.sqpoll_auto = false);
    let sq = ring.sq();
    let wakes = WakeLog::default();
    let mut all_fds: Vec<Box<ManuallyDrop<a10::AsyncFd>>> = Vec::new();
    let mk = |p: u64, all_fds: &mut Vec<Box<ManuallyDrop<a10::AsyncFd>>>| -> BoxFut {
        simk::add_fake_fd(payload_fd(p));
        let fd = Box::new(ManuallyDrop::new(unsafe { a10::AsyncFd::from_raw_fd(payload_fd(p), sq.clone()) }));
        let fd_ref: &'static a10::AsyncFd = unsafe { &*(&**fd as *const a10::AsyncFd) };
        all_fds.push(fd);
        if is_faulty(p) {
            Box::pin(fd_ref.write(FaultyBuf))
        } else if is_sync(p) {
            Box::pin(sync_as_usize(fd_ref))
        } else {
            Box::pin(fd_ref.write(DATA))
        }
    };
    let mut kept: Vec<BoxFut> = Vec::new();
    // Pre-fill from this (unmanaged) thread: program of a virtual thread that already finished.
    let mut pre: Vec<u64> = Vec::new();
    for _ in 0..prefill {
        next += 1;
        let mut f = mk(next, &mut all_fds);
        let _ = poll_once(f.as_mut(), &wakes.waker(0));
        kept.push(f);
        pre.push(next);
    }
    let futs: Vec<Vec<(u64, BoxFut)>> = progs.iter().map(|ps| ps.iter().map(|p| (*p, mk(*p, &mut all_fds))).collect()).collect();
    let panicked_shared: Arc<Mutex<Vec<u64>>> = Arc::new(Mutex::new(Vec::new()));
    let done: Arc<Mutex<Vec<BoxFut>>> = Arc::new(Mutex::new(Vec::new()));
    let mut threads: Vec<Box<dyn FnOnce() + Send>> = Vec::new();
    for fs in futs {
        let done = done.clone();
        let waker = wakes.waker(1);
        let panicked_shared = panicked_shared.clone();
        threads.push(Box::new(move || {
            let mut mine = Vec::new();
            for (payload, mut f) in fs {
                // A faulty buffer panics inside the poll; the future is unusable afterwards.
                match std::panic::catch_unwind(std::panic::AssertUnwindSafe(|| poll_once(f.as_mut(), &waker))) {
                    Ok(_) => mine.push(f),
                    Err(_) => {
                        panicked_shared.lock().unwrap().push(payload);
                        std::mem::forget(f)
                    }
                }
            }
            done.lock().unwrap().extend(mine);
        }));
    }
    // Kernel thread.
    threads.push(Box::new(move || {
        for _ in 0..ksteps {
            sched::yield_point(KPOINT);
            simk::with_fd(ring_fd, |s| s.submit(1));
        }
    }));
    let _ = simk::with(|s| s.take_log());
    let mut teardown_ring: Option<a10::Ring> = None;
    let out = sched::run(threads, &prefix);

    // ---- observations ----------------------------------------------------------------------------
    let mut obs: Vec<i128> = Vec::new();
    let mut events = String::new();
    let mut jevents = String::new();
    let kt = n_threads;
    for (k, (tid, point)) in out.exec.iter().enumerate() {
        if k > 0 {
            events.push_str("; ");
            jevents.push(',');
        }
        if *tid == kt {
            events.push('K');
            obs.push(100);
            jevents.push_str("\"K\"");
        } else {
            // Thread ids in the model: the pre-fill program is thread 0, racing threads follow.
            let _ = write!(events, "T {}%nat", tid + 1);
            obs.push(*point as i128);
            let _ = write!(jevents, "\"T{}@{}\"", tid + 1, point);
        }
    }
    let mut oracle: Option<String> = None;
    if let Some(p) = &out.panicked {
        let msg = silent.lock().unwrap().take().unwrap_or_default();
        oracle = Some(format!("a submitting thread panicked: {p} {msg}"));
    }
    // What the kernel consumed during the run.
    let log = simk::with(|s| s.take_log());
    let mut consumed: Vec<i128> = Vec::new();
    for e in &log {
        match e {
            Ev::Consumed { sqe, .. } => consumed.push(canon(sqe)),
            Ev::Corrupt { what } => {
                oracle.get_or_insert(what.clone());
            }
            _ => {}
        }
    }
    obs.push(-1);
    obs.extend(consumed.iter().copied());
    // What is still pending, in ring order.
    let pending: Vec<i128> = simk::with(|s| {
        s.check_counters();
        s.pending_sqes().iter().map(canon).collect()
    });
    for e in simk::with(|s| s.take_log()) {
        if let Ev::Corrupt { what } = e {
            oracle.get_or_insert(what);
        }
    }
    obs.push(-2);
    obs.extend(pending.iter().copied());
    // Parked payloads are not observable one by one; the model prints them, the implementation
    // side derives them: started and neither consumed nor pending.
    let started: Vec<u64> = pre.iter().copied().chain(progs.iter().flatten().copied()).collect();
    let seen: Vec<i128> = consumed.iter().chain(pending.iter()).copied().collect();
    obs.push(-3);
    let mut parked: Vec<i128> = Vec::new();
    // (order of parking = order in which the adds finished; recover it from the execution log:
    // the step resumed from the blocked-list lock is the last LOCK step of an add that never stored.)
    let mut per_thread_idx = vec![0usize; n_threads];
    let mut last_was_store = vec![false; n_threads];
    let mut adds_done: Vec<(usize, usize, bool)> = Vec::new(); // (thread, add index, stored)
    {
        // Re-walk the log: an add ends at a STORE step (published) or at its second/third LOCK step
        // without a store (parked). Count LOCK steps per add.
        let mut locks = vec![0usize; n_threads];
        let mut loads = vec![0usize; n_threads];
        for (tid, point) in out.exec.iter() {
            if *tid == kt {
                continue;
            }
            let t = *tid;
            match *point {
                1 => {
                    locks[t] += 1;
                    // LOCK #1 = op mutex, LOCK #2 = submission lock or blocked lock (pre-check full),
                    // LOCK #3 = blocked lock after the locked check.
                    let full_precheck = locks[t] == 2 && loads[t] == 2 && false;
                    let _ = full_precheck;
                }
                4 => loads[t] += 1,
                5 => {
                    adds_done.push((t, per_thread_idx[t], true));
                    per_thread_idx[t] += 1;
                    locks[t] = 0;
                    loads[t] = 0;
                    last_was_store[t] = true;
                }
                _ => {}
            }
        }
    }
    let mut panicked: Vec<i128> = panicked_shared.lock().unwrap().iter().map(|p| *p as i128).collect();
    for p in &started {
        if !seen.contains(&(*p as i128)) && !panicked.contains(&(*p as i128)) {
            parked.push(*p as i128);
        }
    }
    let _ = adds_done;
    parked.sort_unstable();
    obs.extend(parked.iter().copied());
    panicked.sort_unstable();
    obs.push(-5);
    obs.extend(panicked.iter().copied());

    // ---- oracle (independent): exactly once, unmodified, no overrun ------------------------------------
    if oracle.is_none() {
        let mut all: Vec<i128> = seen.clone();
        all.sort_unstable();
        let dup = all.windows(2).any(|w| w[0] == w[1]);
        let faulty_seen: Vec<i128> = seen.iter().copied().filter(|p| *p >= 1000).collect();
        if !faulty_seen.is_empty() {
            oracle = Some(format!("the kernel sees entries {:?} whose fill panicked half way (partially written submissions)", faulty_seen));
        } else if dup {
            oracle = Some(format!("the kernel sees a submission twice: consumed {:?}, pending {:?}", consumed, pending));
        } else if seen.iter().any(|p| *p < 0 || !started.contains(&(*p as u64))) {
            oracle = Some(format!("the kernel sees an entry that is no accepted submission (torn or stale): consumed {:?}, pending {:?}", consumed, pending));
        } else if pending.len() > len as usize {
            oracle = Some(format!("{} entries pending in a queue of {len}", pending.len()));
        }
    }
    // Every finished add is either visible to the kernel or parked; a lost submission shows as a
    // payload that is neither although its thread ran to completion and the queue had room.
    if oracle.is_none() && out.panicked.is_none() && !out.stuck {
        let capacity_left = len as usize - pending.len();
        if !parked.is_empty() && capacity_left == len as usize && consumed.is_empty() {
            oracle = Some(format!("submissions {:?} were neither queued nor consumed although the queue is empty", parked));
        }
    }
    if out.stuck {
        oracle.get_or_insert("a thread blocked forever".into());
    }

    // ---- what `enter` hands to the kernel afterwards ---------------------------------------------
    {
        let mut ring = ring;
        let before = pending.len();
        let _ = simk::with(|s| s.take_log());
        let r = std::panic::catch_unwind(std::panic::AssertUnwindSafe(|| ring.poll(Some(std::time::Duration::ZERO))));
        let mut to_submit: i128 = -1;
        for e in simk::with(|s| s.take_log()) {
            if let Ev::Enter { to_submit: n, .. } = e {
                if to_submit < 0 {
                    to_submit = n as i128;
                }
            }
        }
        obs.push(-4);
        obs.push(to_submit);
        if r.is_err() {
            let msg = silent.lock().unwrap().take().unwrap_or_default();
            oracle.get_or_insert(format!("Ring::poll panicked: {msg}"));
        } else if kthread {
            if to_submit != 0 {
                oracle.get_or_insert(format!("kernel-thread ring: enter was told to submit {to_submit} entries (the kernel thread takes them itself)"));
            }
        } else if to_submit != before as i128 {
            oracle.get_or_insert(format!("{before} accepted submissions are pending but enter tells the kernel to take {to_submit}: the rest is never submitted"));
        }
        teardown_ring = Some(ring);
    }
    let ring = teardown_ring.take().unwrap();

    // ---- teardown -------------------------------------------------------------------------------
    simk::with(|s| {
        let n = s.sq_pending();
        s.submit(n);
    });
    let mut d = done.lock().unwrap();
    let futs_done: Vec<BoxFut> = d.drain(..).collect();
    drop(d);
    let _ = std::panic::catch_unwind(std::panic::AssertUnwindSafe(move || {
        drop(futs_done);
        drop(kept);
    }));
    drop(sq);
    let _ = std::panic::catch_unwind(std::panic::AssertUnwindSafe(move || drop(ring)));
    for fd in all_fds {
        drop(ManuallyDrop::into_inner(*fd));
    }
    simk::retire(ring_fd);

    let mut progs_coq = String::from("[");
    let mut progs_json = String::from("[");
    let all_progs: Vec<Vec<u64>> = std::iter::once(pre.clone()).chain(progs.iter().cloned()).collect();
    for (i, p) in all_progs.iter().enumerate() {
        if i > 0 {
            progs_coq.push_str("; ");
            progs_json.push(',');
        }
        let items: Vec<String> = p.iter().map(|x| format!("{x}%N")).collect();
        let _ = write!(progs_coq, "[{}]", items.join("; "));
        let items: Vec<String> = p.iter().map(|x| x.to_string()).collect();
        let _ = write!(progs_json, "[{}]", items.join(","));
    }
    progs_coq.push(']');
    progs_json.push(']');
    // The pre-fill program runs to completion before the race: one T 0 step per scheduling point.
    // POpLock, PLoadH1, PLoadT1, PLockSub, PLoadH2, PLoadT2, PFill, PStore = 8 steps per accepted add.
    let mut pre_events = String::new();
    let mut pre_obs: Vec<i128> = Vec::new();
    for _ in 0..prefill {
        for code in [1, 4, 4, 1, 4, 4, 9, 5] {
            pre_events.push_str("T 0%nat; ");
            pre_obs.push(code);
        }
    }
    let mut full_obs = pre_obs;
    full_obs.extend(obs);
    let coq = format!(
        "{{| sq_len := {len}%N; sq_kthread := {kthread}; sq_start := {start}%N; sq_progs := {progs_coq}; sq_events := [{}{}] |}}",
        if events.is_empty() && !pre_events.is_empty() { pre_events.trim_end_matches("; ").to_string() } else { pre_events },
        events
    );
    let json = format!(
        "{{\"sq_entries\":{len},\"sq_entries_asked\":{asked},\"ring_mode\":{mode},\"start\":{start},\"programs\":{progs_json},\"prefilled\":{prefill},\"kernel_steps\":{ksteps},\"schedule\":[{jevents}]}}"
    );
    let wraps = (start as u64 + (prefill + consumed.len() + pending.len()) as u64) > u32::MAX as u64;
    let preemptions = out.trace.iter().filter(|t| t.2).count();
    let tags = vec![
        format!("sq_len:{len}"),
        format!("sq_asked:{asked}"),
        format!("ring_mode:{}", ["default", "single_issuer", "kernel_thread", "default"][mode as usize]),
        format!("threads:{n_threads}"),
        format!("preemptions:{}", preemptions.min(6)),
        format!("tail_wraps:{wraps}"),
        format!("parked:{}", parked.len().min(3)),
        format!("lock_contended:{}", out.exec.iter().any(|e| e.1 == 2)),
    ];
    Case { coq, obs: full_obs, json, oracle, known: None, tags, nontrivial: preemptions > 0 || !parked.is_empty() }
}

/// The payload of an entry the kernel sees, when the entry is byte for byte what a fill of a
/// freshly reset slot produces for that payload (every field the operation does not set is 0);
/// -7 for anything else (torn, stale, or carrying left-overs of an earlier entry).
fn canon(sqe: &abi::Sqe) -> i128 {
    if sqe.fd < 1_000_000 || sqe.user_data <= 3 {
        return -7;
    }
    let p = (sqe.fd - 1_000_000) as u64;
    let want = if is_sync(p) {
        abi::Sqe { opcode: abi::OP_FSYNC, flags: 0, ioprio: 0, fd: sqe.fd, off: 0, addr: 0, len: 0, op_flags: 1 /* IORING_FSYNC_DATASYNC */, user_data: sqe.user_data, buf_index: 0, personality: 0, file_index: 0, addr3: 0, pad2: 0 }
    } else {
        abi::Sqe { opcode: abi::OP_WRITE, flags: 0, ioprio: 0, fd: sqe.fd, off: u64::MAX, addr: DATA.as_ptr() as u64, len: DATA.len() as u32, op_flags: 0, user_data: sqe.user_data, buf_index: 0, personality: 0, file_index: 0, addr3: 0, pad2: 0 }
    };
    if *sqe == want {
        p as i128
    } else {
        -7
    }
}

pub fn run(args: &Args) -> i32 {
    simk::install();
    let silent: Arc<Mutex<Option<String>>> = Arc::new(Mutex::new(None));
    let s2 = silent.clone();
    std::panic::set_hook(Box::new(move |info| {
        *s2.lock().unwrap() = Some(info.to_string());
    }));
    let n = args.n.unwrap_or(if args.thorough { 30_000 } else { 1_500 });
    let root = Rng::new(args.seed);
    let cases = out::run_forked(&args.out, n, 12, &|i| {
        let mut r = root.fork(i as u64);
        one_case(&mut r, &silent)
    });
    let _ = std::panic::take_hook();
    let spec = Spec { prop: "C04", imports: &["Model.SqRing"], run_fn: "run_sqcase", case_ty: "sqcase", shard: 400 };
    out::write_all(&args.out, &spec, &cases, &[]);
    0
}

//! C18 — ring construction is all-or-nothing and honours the configuration.
//!
//! Real `Ring::config()....build()` under the simulated kernel: generated configurations crossed
//! with every point at which the kernel can refuse (setup error, each required feature bit
//! missing, unmappable descriptor, each mmap, each madvise, the file table registration). The
//! driver records the parameter block a10 handed to `io_uring_setup`, the sequence of
//! mmap/madvise/munmap/register calls (addresses canonicalised to the index of the mmap call),
//! whether the descriptor the kernel handed out is still open, and for a returned ring what it
//! recorded and what dropping it releases.
//!
//! The oracle does not use the model: descriptor table (`/proc/self/fd`), mapped bytes of the
//! simulator's file (`/proc/self/maps`) and the mmap/munmap balance of the event log before and
//! after; outcome against what the kernel answered; parameter block against the documented
//! meaning of each setter (ABI numbers pinned in `simk::abi`).
//!
//! The thorough tier adds builds on the real kernel (no simulator) that fail before and after
//! the mappings exist, and successful builds followed by a drop.

use std::fmt::Write as _;
use std::panic::{catch_unwind, AssertUnwindSafe};
use std::sync::{Arc, Mutex};
use std::time::Duration;

use crate::out::{self, Case, Spec};
use crate::rng::Rng;
use crate::simk::{self, abi, Ev, SetupConfig};
use crate::Args;

#[derive(Clone, Debug, PartialEq)]
enum Setter {
    Sq(u32),
    Cq(u32),
    Max,
    Single,
    Defer,
    KThread,
    Cpu(u32),
    Idle(u64, u32),
    Direct(u32),
    Disable,
    Attach,
}

/// Descriptor number standing for "the other ring" in the Coq term and the observation.
const OTHER_FD: i128 = 777;
/// Descriptor number standing for "the new ring" in the Coq term.
const RING_FD: i128 = 100;
// Offsets the simulated kernel reports (harness/src/simk.rs: sq_off.array, cq_off.cqes).
const SIM_SQ_ARRAY: u64 = 0;
const SIM_CQ_CQES: u64 = 192;
// The simulator's own view of a ring: two maps of this size plus the submission entries.
const SIM_RING_MAP: u64 = 1 << 20;

const ENOMEM: i32 = 12;
// mmap(PROT_WRITE, MAP_SHARED) of the read end of a pipe.
const EACCES: i32 = 13;
const EINVAL: i32 = 22;

#[derive(Clone, Debug)]
struct Inject {
    label: &'static str,
    fail_setup: Option<i32>,
    features: u32,
    unmappable: bool,
    fail_mmap: Option<usize>,
    fail_madvise: Option<usize>,
    fail_register: Option<(u32, i32)>,
}

impl Inject {
    fn none(label: &'static str) -> Inject {
        Inject {
            label,
            fail_setup: None,
            features: abi::FEAT_DEFAULT,
            unmappable: false,
            fail_mmap: None,
            fail_madvise: None,
            fail_register: None,
        }
    }
}

const REQUIRED: [(u32, &str); 4] = [
    (abi::FEAT_NODROP, "IORING_FEAT_NODROP"),
    (abi::FEAT_SUBMIT_STABLE, "IORING_FEAT_SUBMIT_STABLE"),
    (abi::FEAT_RW_CUR_POS, "IORING_FEAT_RW_CUR_POS"),
    (abi::FEAT_SQPOLL_NONFIXED, "IORING_FEAT_SQPOLL_NONFIXED"),
];

/// Every point at which the kernel can refuse.
fn failure_points() -> Vec<Inject> {
    let n = Inject::none;
    let mut v = vec![n("none")];
    for (label, e) in [("setup:ENOMEM", 12), ("setup:EPERM", 1), ("setup:ENOSYS", 38), ("setup:EMFILE", 24), ("setup:EFAULT", 14)] {
        v.push(Inject { fail_setup: Some(e), ..n(label) });
    }
    for (label, bit) in [
        ("feature:NODROP", abi::FEAT_NODROP),
        ("feature:SUBMIT_STABLE", abi::FEAT_SUBMIT_STABLE),
        ("feature:RW_CUR_POS", abi::FEAT_RW_CUR_POS),
        ("feature:SQPOLL_NONFIXED", abi::FEAT_SQPOLL_NONFIXED),
    ] {
        v.push(Inject { features: abi::FEAT_DEFAULT & !bit, ..n(label) });
    }
    v.push(Inject { features: 0, ..n("feature:none") });
    v.push(Inject { features: abi::FEAT_DEFAULT & !(abi::FEAT_SUBMIT_STABLE | abi::FEAT_SQPOLL_NONFIXED), ..n("feature:two-missing") });
    v.push(Inject { features: u32::MAX, ..n("feature:all-bits") });
    v.push(Inject { unmappable: true, ..n("unmappable") });
    for (label, k) in [("mmap:0", 0), ("mmap:1", 1), ("mmap:2", 2)] {
        v.push(Inject { fail_mmap: Some(k), ..n(label) });
    }
    for (label, k) in [("madvise:0", 0), ("madvise:1", 1), ("madvise:2", 2)] {
        v.push(Inject { fail_madvise: Some(k), ..n(label) });
    }
    v.push(Inject { fail_register: Some((abi::REGISTER_FILES2, 24)), ..n("register:EMFILE") });
    v.push(Inject { fail_register: Some((abi::REGISTER_FILES2, 12)), ..n("register:ENOMEM") });
    v.push(Inject { fail_register: Some((abi::REGISTER_ENABLE_RINGS, 22)), ..n("register:other-opcode") });
    v.push(Inject { fail_mmap: Some(2), fail_madvise: Some(1), ..n("mmap:2+madvise:1") });
    v.push(Inject { fail_madvise: Some(2), fail_register: Some((abi::REGISTER_FILES2, 16)), ..n("madvise:2+register") });
    v.push(Inject { features: abi::FEAT_DEFAULT & !abi::FEAT_RW_CUR_POS, fail_mmap: Some(0), ..n("feature:RW_CUR_POS+mmap:0") });
    v
}

const SQ_POOL: [u32; 14] = [1, 2, 4, 8, 8, 32, 64, 3, 100, 0, 32768, 32769, 100_000, u32::MAX];
const CQ_POOL: [u32; 14] = [1, 2, 4, 16, 64, 128, 5, 0, 4096, 65536, 65537, 1 << 20, u32::MAX, 256];
const CPU_POOL: [u32; 5] = [0, 1, 3, 1000, u32::MAX];
const IDLE_POOL: [(u64, u32); 8] = [
    (0, 0),
    (0, 999_999),
    (0, 1_000_000),
    (2, 500_000_000),
    (4_294_967, 295_000_000),
    (4_294_967, 296_000_000),
    (1 << 40, 7),
    (u64::MAX, 999_999_999),
];
const DIRECT_POOL: [u32; 6] = [0, 1, 4, 64, 1000, 1 << 15];

fn gen_setters(r: &mut Rng, config_index: usize) -> Vec<Setter> {
    match config_index {
        0 => return vec![],
        1 => {
            return vec![
                Setter::Sq(8),
                Setter::Cq(64),
                Setter::Single,
                Setter::Defer,
                Setter::Disable,
                Setter::Direct(16),
                Setter::Attach,
            ];
        }
        2 => return vec![Setter::KThread, Setter::Cpu(1), Setter::Idle(1, 0), Setter::Sq(4), Setter::Direct(4)],
        3 => return vec![Setter::Max, Setter::Direct(2)],
        4 => return vec![Setter::Defer],                     // EINVAL: needs single issuer
        5 => return vec![Setter::Sq(16), Setter::Cq(4)],     // EINVAL: cq < sq
        6 => return vec![Setter::Cpu(2)],                    // EINVAL: affinity without the thread
        7 => return vec![Setter::Sq(0)],                     // EINVAL
        _ => {}
    }
    let mut v = Vec::new();
    // Sizes: small ones most of the time so that most configurations are valid.
    if r.chance(3, 4) {
        v.push(Setter::Sq(if r.chance(3, 4) { *r.pick(&SQ_POOL[..7]) } else { *r.pick(&SQ_POOL) }));
    }
    if r.chance(1, 2) {
        v.push(Setter::Cq(if r.chance(3, 4) { *r.pick(&CQ_POOL[3..7]) } else { *r.pick(&CQ_POOL) }));
    }
    if r.chance(1, 6) {
        v.push(Setter::Max);
    }
    let kthread = r.chance(1, 3);
    if kthread {
        v.push(Setter::KThread);
    }
    if r.chance(if kthread { 2 } else { 1 }, if kthread { 3 } else { 12 }) {
        v.push(Setter::Cpu(*r.pick(&CPU_POOL)));
    }
    if r.chance(1, 3) {
        let (s, n) = *r.pick(&IDLE_POOL);
        v.push(Setter::Idle(s, n));
    }
    let single = r.chance(1, 2);
    if single {
        v.push(Setter::Single);
    }
    if r.chance(1, if single { 2 } else { 10 }) {
        v.push(Setter::Defer);
    }
    if r.chance(1, 4) {
        v.push(Setter::Disable);
    }
    if r.chance(1, 4) {
        v.push(Setter::Attach);
    }
    if r.chance(3, 5) {
        v.push(Setter::Direct(*r.pick(&DIRECT_POOL)));
    }
    // A second call of a value setter now and then (the last one wins).
    if r.chance(1, 6) {
        v.push(Setter::Sq(*r.pick(&SQ_POOL[..7])));
    }
    if r.chance(1, 10) {
        v.push(Setter::Direct(*r.pick(&DIRECT_POOL)));
    }
    // Shuffle: the order of the calls is part of the case.
    for i in (1..v.len()).rev() {
        let j = r.below(i as u64 + 1) as usize;
        v.swap(i, j);
    }
    v
}

/// The configuration the setters describe, by the documentation of each setter.
#[derive(Clone, Debug, Default)]
struct Want {
    sq: u32,
    cq: Option<u32>,
    clamp: bool,
    kthread: bool,
    cpu: Option<u32>,
    idle: Option<u32>,
    single: bool,
    defer: bool,
    disabled: bool,
    attach: bool,
    direct: Option<u32>,
}

fn want_of(setters: &[Setter]) -> Want {
    let mut w = Want { sq: 32, ..Default::default() };
    for s in setters {
        match *s {
            Setter::Sq(n) => w.sq = n,
            Setter::Cq(n) => w.cq = Some(n),
            Setter::Max => {
                w.sq = u32::MAX;
                w.clamp = true;
            }
            Setter::Single => w.single = true,
            Setter::Defer => w.defer = true,
            Setter::KThread => w.kthread = true,
            Setter::Cpu(n) => w.cpu = Some(n),
            Setter::Idle(s, n) => w.idle = Some(u32::try_from(Duration::new(s, n).as_millis()).unwrap_or(u32::MAX)),
            Setter::Direct(n) => w.direct = Some(n),
            Setter::Disable => w.disabled = true,
            Setter::Attach => w.attach = true,
        }
    }
    w
}

/// Linux's io_uring_create() rejects these with EINVAL (io_uring_setup(2)).
fn invalid_for_linux(w: &Want) -> Option<&'static str> {
    if w.sq == 0 {
        return Some("zero submission entries");
    }
    if w.sq > 32768 && !w.clamp {
        return Some("more than 32768 submission entries without clamp");
    }
    let sq = w.sq.min(32768).next_power_of_two();
    if let Some(cq) = w.cq {
        if cq == 0 {
            return Some("zero completion entries");
        }
        if cq > 65536 && !w.clamp {
            return Some("more than 65536 completion entries without clamp");
        }
        if cq.min(65536).next_power_of_two() < sq {
            return Some("completion queue smaller than the submission queue");
        }
    }
    if w.defer && !w.single {
        return Some("defer_task_run without single_issuer");
    }
    if w.cpu.is_some() && !w.kthread {
        return Some("cpu affinity without the kernel thread");
    }
    None
}

fn apply<'r>(mut cfg: a10::Config<'r>, setters: &[Setter], other: Option<&'r a10::Ring>) -> a10::Config<'r> {
    for s in setters {
        cfg = match *s {
            Setter::Sq(n) => cfg.with_submission_queue_size(n),
            Setter::Cq(n) => cfg.with_completion_queue_size(n),
            Setter::Max => cfg.with_maximum_queue_size(),
            Setter::Single => cfg.single_issuer(),
            Setter::Defer => cfg.defer_task_run(),
            Setter::KThread => cfg.with_kernel_thread(),
            Setter::Cpu(n) => cfg.with_cpu_affinity(n),
            Setter::Idle(s, n) => cfg.with_idle_timeout(Duration::new(s, n)),
            Setter::Direct(n) => cfg.with_direct_descriptors(n),
            Setter::Disable => cfg.disable(),
            Setter::Attach => cfg.attach(other.expect("other ring")),
        };
    }
    cfg
}

fn coq_setter(s: &Setter) -> String {
    match *s {
        Setter::Sq(n) => format!("SubmissionQueueSize {n}%N"),
        Setter::Cq(n) => format!("CompletionQueueSize {n}%N"),
        Setter::Max => "MaximumQueueSize".into(),
        Setter::Single => "SingleIssuer".into(),
        Setter::Defer => "DeferTaskRun".into(),
        Setter::KThread => "KernelThread".into(),
        Setter::Cpu(n) => format!("CpuAffinity {n}%N"),
        Setter::Idle(s, n) => format!("IdleTimeout {s}%N {n}%N"),
        Setter::Direct(n) => format!("DirectDescriptors {n}%N"),
        Setter::Disable => "Disable".into(),
        Setter::Attach => format!("Attach {OTHER_FD}%N"),
    }
}

fn json_setter(s: &Setter) -> String {
    match *s {
        Setter::Sq(n) => format!("\"with_submission_queue_size({n})\""),
        Setter::Cq(n) => format!("\"with_completion_queue_size({n})\""),
        Setter::Max => "\"with_maximum_queue_size()\"".into(),
        Setter::Single => "\"single_issuer()\"".into(),
        Setter::Defer => "\"defer_task_run()\"".into(),
        Setter::KThread => "\"with_kernel_thread()\"".into(),
        Setter::Cpu(n) => format!("\"with_cpu_affinity({n})\""),
        Setter::Idle(s, n) => format!("\"with_idle_timeout(Duration::new({s}, {n}))\""),
        Setter::Direct(n) => format!("\"with_direct_descriptors({n})\""),
        Setter::Disable => "\"disable()\"".into(),
        Setter::Attach => "\"attach(&other_ring)\"".into(),
    }
}

// --- process state -------------------------------------------------------------------------------

fn fd_count() -> usize {
    std::fs::read_dir("/proc/self/fd").map(|d| d.count()).unwrap_or(0)
}

fn fd_is_open(fd: i32) -> bool {
    unsafe { libc::fcntl(fd, libc::F_GETFD) != -1 }
}

/// (number of mappings, bytes mapped) of the lines of /proc/self/maps whose name contains `what`.
fn mapped(what: &str) -> (usize, u64) {
    let text = std::fs::read_to_string("/proc/self/maps").unwrap_or_default();
    let mut n = 0;
    let mut bytes = 0;
    for line in text.lines() {
        if !line.contains(what) {
            continue;
        }
        let range = line.split(' ').next().unwrap_or("");
        if let Some((a, b)) = range.split_once('-') {
            if let (Ok(a), Ok(b)) = (u64::from_str_radix(a, 16), u64::from_str_radix(b, 16)) {
                n += 1;
                bytes += b - a;
            }
        }
    }
    (n, bytes)
}

fn map_lines() -> usize {
    std::fs::read_to_string("/proc/self/maps").map(|t| t.lines().count()).unwrap_or(0)
}

fn page_up(n: u64) -> u64 {
    (n + 4095) & !4095
}

/// `name: value` out of a `Debug` rendering.
fn debug_field(text: &str, name: &str) -> Option<String> {
    let key = format!("{name}: ");
    let at = text.find(&key)? + key.len();
    let rest = &text[at..];
    let end = rest.find(|c: char| c == ',' || c == ' ' || c == '}').unwrap_or(rest.len());
    Some(rest[..end].to_string())
}

struct Outcome {
    /// 0 ok, 1 os error, 2 unsupported, 3 panic, 4 other error
    class: i128,
    code: i128,
    text: String,
}

fn classify(res: &std::thread::Result<std::io::Result<a10::Ring>>) -> Outcome {
    match res {
        Err(_) => Outcome { class: 3, code: 0, text: "panicked".into() },
        Ok(Ok(_)) => Outcome { class: 0, code: 0, text: "Ok".into() },
        Ok(Err(e)) => match e.raw_os_error() {
            Some(c) => Outcome { class: 1, code: c as i128, text: format!("Err(os error {c})") },
            None if e.kind() == std::io::ErrorKind::Unsupported => {
                let msg = e.to_string();
                let code = REQUIRED.iter().find(|(_, name)| msg.contains(&format!("`{name}`"))).map(|(b, _)| *b as i128).unwrap_or(-1);
                Outcome { class: 2, code, text: format!("Err(Unsupported: {msg})") }
            }
            None => Outcome { class: 4, code: 0, text: format!("Err({e})") },
        },
    }
}

/// Canonical rendering of the mmap/madvise/munmap/register events; `maps` accumulates the
/// mmap calls ((address, length, offset) or None for a failed one) across calls.
fn render(log: &[Ev], maps: &mut Vec<Option<(usize, usize, i64)>>, dropping: bool, obs: &mut Vec<i128>) {
    let idx_of = |maps: &Vec<Option<(usize, usize, i64)>>, a: usize| -> i128 {
        maps.iter().rposition(|m| matches!(m, Some((addr, _, _)) if *addr == a)).map(|i| i as i128).unwrap_or(-1)
    };
    for e in log {
        match e {
            Ev::Mmap { len, offset, res_ok, addr } => {
                if *res_ok {
                    maps.push(Some((*addr, *len, *offset)));
                    obs.extend([10, maps.len() as i128 - 1, *len as i128, *offset as i128]);
                } else {
                    maps.push(None);
                    obs.extend([11, *len as i128, *offset as i128]);
                }
            }
            Ev::Madvise { addr, len, advice, res } => {
                obs.extend([12, idx_of(maps, *addr), *len as i128, *advice as i128, (*res == 0) as i128]);
            }
            Ev::Munmap { addr, len } => obs.extend([13, idx_of(maps, *addr), *len as i128]),
            Ev::Register { opcode, .. } if dropping && *opcode == abi::REGISTER_SYNC_CANCEL => {}
            Ev::Register { opcode, nr, res, detail } => {
                if *res == 0 {
                    let field = |k: &str| -> i128 {
                        detail.split(' ').find_map(|p| p.strip_prefix(k)).and_then(|v| v.parse().ok()).unwrap_or(-1)
                    };
                    obs.extend([14, *opcode as i128, *nr as i128, field("nr="), field("flags="), 1]);
                } else {
                    obs.extend([14, *opcode as i128, *nr as i128, 0]);
                }
            }
            _ => {}
        }
    }
}

/// Replays the mmap/munmap events on `live`: every munmap must name a live mapping with its length.
fn balance(log: &[Ev], live: &mut Vec<(usize, usize, i64)>) -> Result<(), String> {
    for e in log {
        match e {
            Ev::Mmap { len, offset, res_ok: true, addr } => live.push((*addr, *len, *offset)),
            Ev::Munmap { addr, len } => match live.iter().position(|(a, _, _)| a == addr) {
                Some(p) if live[p].1 == *len => {
                    live.remove(p);
                }
                Some(p) => {
                    return Err(format!(
                        "munmap of the mapping at offset {:#x} with length {} but it was mapped with length {}",
                        live[p].2, len, live[p].1
                    ));
                }
                None => return Err(format!("munmap({addr:#x}, {len}) of something that is not mapped (double unmap?)")),
            },
            _ => {}
        }
    }
    Ok(())
}

fn latest_sim_fd() -> Option<i32> {
    catch_unwind(|| simk::with(|s| s.fd)).ok()
}

fn sim_case(setters: &[Setter], inj: &Inject, checked: bool) -> Case {
    simk::install();
    simk::reset();
    let want = want_of(setters);
    let mut problems: Vec<String> = Vec::new();

    // The ring to attach to (always created: keeps the descriptor numbers alike across cases).
    simk::configure(SetupConfig::default());
    let other = a10::Ring::config().with_submission_queue_size(2).build().expect("other ring on the simulated kernel");
    let other_fd = simk::with(|s| s.fd);
    let _ = simk::with(|s| s.take_log());
    let _ = simk::take_setup_log();

    let fds_before = fd_count();
    let (_, bytes_before) = mapped("memfd:simk");

    simk::configure(SetupConfig {
        features: inj.features,
        fail_setup: inj.fail_setup,
        unmappable: inj.unmappable,
        fail_mmap: inj.fail_mmap,
        fail_madvise: inj.fail_madvise,
        fail_register: inj.fail_register,
        ..SetupConfig::default()
    });
    let res = catch_unwind(AssertUnwindSafe(|| apply(a10::Ring::config(), setters, Some(&other)).build()));
    let out = classify(&res);

    // What the kernel was asked and what it answered.
    let failed_setups = simk::take_setup_log();
    let new_fd = latest_sim_fd().filter(|fd| *fd != other_fd);
    // The simulator attributes a munmap to the ring whose log holds the mmap: leave its log in place.
    let mut log = new_fd.and_then(|fd| simk::with_fd(fd, |s| s.log.clone())).unwrap_or_default();
    let seen = log.len();
    let setup_ev = failed_setups.first().cloned().or_else(|| log.iter().find(|e| matches!(e, Ev::Setup { .. })).cloned());
    let n_setups = failed_setups.len() + log.iter().filter(|e| matches!(e, Ev::Setup { .. })).count();
    log.retain(|e| !matches!(e, Ev::Setup { .. }));
    let (params_in, setup_res) = match setup_ev {
        Some(Ev::Setup { params_in, res, .. }) => (params_in, res),
        _ => ([0; 7], i32::MIN),
    };
    if n_setups != 1 {
        problems.push(format!("io_uring_setup was called {n_setups} times"));
    }
    let granted = new_fd.and_then(|fd| simk::with_fd(fd, |s| (s.sq_entries, s.cq_entries)));

    // ---- observation --------------------------------------------------------------------------
    let mut obs: Vec<i128> = Vec::new();
    let canon_wq = |v: u32| if v as i128 == other_fd as i128 { OTHER_FD } else { v as i128 };
    obs.extend([
        params_in[6] as i128,
        params_in[0] as i128,
        params_in[1] as i128,
        params_in[2] as i128,
        params_in[3] as i128,
        params_in[4] as i128,
        canon_wq(params_in[5]),
    ]);
    match out.class {
        0 => obs.push(0),
        1 | 2 => obs.extend([out.class, out.code]),
        3 => obs.push(3),
        _ => obs.extend([4, 0]),
    }
    obs.push(-1);
    let mut maps: Vec<Option<(usize, usize, i64)>> = Vec::new();
    render(&log, &mut maps, false, &mut obs);
    let open_after = new_fd.map(fd_is_open).unwrap_or(false);
    obs.extend([-2, open_after as i128]);

    // ---- oracle: outcome against the kernel's answers ------------------------------------------
    let mut expected: (i128, i128) = (0, 0);
    if setup_res < 0 {
        expected = (1, -(setup_res as i128));
    } else if REQUIRED.iter().any(|(b, _)| inj.features & b == 0) {
        expected = (2, 0);
    } else {
        let mut found = false;
        for k in 0..3 {
            if inj.unmappable {
                expected = (1, EACCES as i128);
                found = true;
            } else if inj.fail_mmap == Some(k) {
                expected = (1, ENOMEM as i128);
                found = true;
            } else if inj.fail_madvise == Some(k) {
                expected = (1, EINVAL as i128);
                found = true;
            }
            if found {
                break;
            }
        }
        if !found {
            if let (Some(_), Some((op, e))) = (want.direct, inj.fail_register) {
                if op == abi::REGISTER_FILES2 {
                    expected = (1, e as i128);
                }
            }
        }
    }
    if out.class == 3 {
        problems.push("build panicked".into());
    } else if expected.0 != out.class || (expected.0 == 1 && expected.1 != out.code) {
        let exp = match expected {
            (0, _) => "Ok".to_string(),
            (1, e) => format!("Err(os error {e})"),
            _ => "Err(Unsupported)".to_string(),
        };
        problems.push(format!("the kernel's answers ({}) call for {exp} but build returned {}", inj.label, out.text));
    } else if out.class == 2 && !REQUIRED.iter().any(|(b, _)| *b as i128 == out.code && inj.features & b == 0) {
        problems.push(format!("build reports a missing feature that the kernel offered: {}", out.text));
    }
    if inj.fail_setup.is_none() {
        if let Some(why) = invalid_for_linux(&want) {
            if !(out.class == 1 && out.code == EINVAL as i128) {
                problems.push(format!("Linux rejects this configuration with EINVAL ({why}) but build returned {}", out.text));
            }
        }
    }

    // ---- oracle: the parameter block against the configuration ---------------------------------
    if setup_res != i32::MIN {
        let mut flags = abi::SETUP_SUBMIT_ALL | abi::SETUP_NO_SQARRAY;
        flags |= if want.kthread { abi::SETUP_SQPOLL } else { abi::SETUP_COOP_TASKRUN };
        for (on, bit) in [
            (want.disabled, abi::SETUP_R_DISABLED),
            (want.single, abi::SETUP_SINGLE_ISSUER),
            (want.defer, abi::SETUP_DEFER_TASKRUN),
            (want.cq.is_some(), abi::SETUP_CQSIZE),
            (want.clamp, abi::SETUP_CLAMP),
            (want.cpu.is_some(), abi::SETUP_SQ_AFF),
            (want.attach, abi::SETUP_ATTACH_WQ),
        ] {
            if on {
                flags |= bit;
            }
        }
        let exp = [
            want.sq,
            want.cq.unwrap_or(0),
            flags,
            want.cpu.unwrap_or(0),
            want.idle.unwrap_or(0),
            if want.attach { other_fd as u32 } else { 0 },
            want.sq,
        ];
        let names = ["sq_entries", "cq_entries", "flags", "sq_thread_cpu", "sq_thread_idle", "wq_fd", "entries argument"];
        for k in 0..7 {
            if exp[k] != params_in[k] {
                problems.push(format!(
                    "io_uring_setup parameter {} is {:#x} but the configuration calls for {:#x}",
                    names[k], params_in[k], exp[k]
                ));
            }
        }
    }

    // ---- oracle: resources ---------------------------------------------------------------------
    let mut live: Vec<(usize, usize, i64)> = Vec::new();
    if let Err(what) = balance(&log, &mut live) {
        problems.push(what);
    }
    let sim_own = match (new_fd, granted) {
        (Some(_), Some((sq, _))) if !inj.unmappable => 2 * SIM_RING_MAP + page_up(sq as u64 * 64),
        _ => 0,
    };
    let mut ring_ok = false;
    match res {
        Ok(Ok(ring)) => {
            ring_ok = true;
            let (sq, cq) = granted.unwrap_or((0, 0));
            let fds_now = fd_count();
            let (_, bytes_now) = mapped("memfd:simk");
            if !open_after {
                problems.push("build returned a ring but the ring descriptor is closed".into());
            }
            if fds_now != fds_before + 1 {
                problems.push(format!("a returned ring should hold one descriptor; the process has {} more than before", fds_now as i64 - fds_before as i64));
            }
            let mut want_maps = vec![
                (SIM_SQ_ARRAY + 4 * sq as u64, abi::OFF_SQ_RING),
                (64 * sq as u64, abi::OFF_SQES),
                (SIM_CQ_CQES + 16 * cq as u64, abi::OFF_CQ_RING),
            ];
            let mut have: Vec<(u64, i64)> = live.iter().map(|(_, l, o)| (*l as u64, *o)).collect();
            want_maps.sort();
            have.sort();
            if have != want_maps {
                problems.push(format!("a ring of {sq}/{cq} entries should hold the mappings (length, offset) {want_maps:?} but holds {have:?}"));
            }
            let a10_bytes: u64 = live.iter().map(|(_, l, _)| page_up(*l as u64)).sum();
            if bytes_now != bytes_before + sim_own + a10_bytes {
                problems.push(format!(
                    "mapped bytes of the ring file: {} expected {} (/proc/self/maps)",
                    bytes_now - bytes_before,
                    sim_own + a10_bytes
                ));
            }
            // What the ring recorded.
            let dbg = format!("{ring:?}");
            let num = |name: &str| debug_field(&dbg, name).and_then(|v| v.parse::<i128>().ok()).unwrap_or(-1);
            let flag = |name: &str| debug_field(&dbg, name).map(|v| (v == "true") as i128).unwrap_or(-1);
            let rec_sq = num("submissions_len");
            let rec_cq = num("entries_len");
            let rec_kt = flag("kernel_thread");
            let rec_si = flag("single_issuer");
            let rec_fd = num("OwnedFd { fd");
            if rec_sq != sq as i128 || rec_cq != cq as i128 {
                problems.push(format!("the kernel granted {sq}/{cq} entries but the ring records {rec_sq}/{rec_cq}"));
            }
            if rec_kt != want.kthread as i128 || rec_si != want.single as i128 {
                problems.push(format!(
                    "kernel_thread/single_issuer requested {}/{} but the ring records {rec_kt}/{rec_si}",
                    want.kthread, want.single
                ));
            }
            let fd_same = new_fd.map(|fd| fd as i128 == rec_fd).unwrap_or(false);
            if !fd_same {
                problems.push(format!("the ring records descriptor {rec_fd}, the kernel handed out {new_fd:?}"));
            }
            if let Some(size) = want.direct {
                let ok = log.iter().any(|e| matches!(e, Ev::Register { opcode, res: 0, detail, .. }
                    if *opcode == abi::REGISTER_FILES2 && detail == &format!("nr={size} flags=1")));
                if !ok {
                    problems.push(format!("with_direct_descriptors({size}) did not register a sparse table of {size} slots"));
                }
            }
            obs.extend([-3, rec_sq, rec_cq, rec_kt, rec_si, fd_same as i128]);

            // Drop it.
            let dropped = catch_unwind(AssertUnwindSafe(move || drop(ring)));
            if dropped.is_err() {
                problems.push("dropping the ring panicked".into());
            }
            let dlog: Vec<Ev> = new_fd.and_then(|fd| simk::with_fd(fd, |s| s.log[seen..].to_vec())).unwrap_or_default();
            obs.push(-4);
            render(&dlog, &mut maps, true, &mut obs);
            let open_end = new_fd.map(fd_is_open).unwrap_or(false);
            obs.extend([-5, open_end as i128]);
            if let Err(what) = balance(&dlog, &mut live) {
                problems.push(format!("while dropping the ring: {what}"));
            }
            if open_end {
                problems.push("the ring descriptor is still open after dropping the ring".into());
            }
            if !live.is_empty() {
                problems.push(format!("{} mapping(s) still mapped after dropping the ring: (length, offset) {:?}", live.len(), live.iter().map(|(_, l, o)| (*l, *o)).collect::<Vec<_>>()));
            }
        }
        _ => {
            if open_after {
                problems.push(format!("build returned {} but the ring descriptor is still open", out.text));
            }
            if !live.is_empty() {
                problems.push(format!(
                    "build returned {} but {} mapping(s) are still mapped: (length, offset) {:?}",
                    out.text,
                    live.len(),
                    live.iter().map(|(_, l, o)| (*l, *o)).collect::<Vec<_>>()
                ));
            }
        }
    }
    if let Some(fd) = new_fd {
        simk::retire(fd);
    }
    let fds_end = fd_count();
    let (_, bytes_end) = mapped("memfd:simk");
    if fds_end != fds_before {
        problems.push(format!("{} descriptor(s) left behind (/proc/self/fd: {fds_before} before, {fds_end} after)", fds_end as i64 - fds_before as i64));
    }
    if bytes_end != bytes_before {
        problems.push(format!("{} byte(s) of the ring file left mapped (/proc/self/maps)", bytes_end as i64 - bytes_before as i64));
    }
    drop(other);
    simk::retire(other_fd);

    // ---- the case as a Coq term ----------------------------------------------------------------
    let mut coq = format!("{{| b_checked := {checked}; b_setters := [");
    let mut json = String::from("{\"setters\":[");
    for (i, s) in setters.iter().enumerate() {
        if i > 0 {
            coq.push_str("; ");
            json.push(',');
        }
        coq.push_str(&coq_setter(s));
        json.push_str(&json_setter(s));
    }
    let setup = if setup_res < 0 {
        format!("SetupErr {}%N", -(setup_res as i64))
    } else {
        let (sq, cq) = granted.unwrap_or((0, 0));
        format!(
            "SetupOk {{| g_fd := {RING_FD}%N; g_sq := {sq}%N; g_cq := {cq}%N; g_flags := {}%N; g_features := {}%N; g_sq_array := {SIM_SQ_ARRAY}%N; g_cq_cqes := {SIM_CQ_CQES}%N |}}",
            params_in[2], inj.features
        )
    };
    let map = |k: usize| {
        if inj.unmappable {
            format!("MapErr {EACCES}%N")
        } else if inj.fail_mmap == Some(k) {
            format!("MapErr {ENOMEM}%N")
        } else {
            format!("MapOk {k}%N")
        }
    };
    let adv = |k: usize| if inj.fail_madvise == Some(k) { format!("SysErr {EINVAL}%N") } else { "SysOk".to_string() };
    let reg = match inj.fail_register {
        Some((op, e)) if op == abi::REGISTER_FILES2 => format!("SysErr {e}%N"),
        _ => "SysOk".to_string(),
    };
    let _ = write!(
        coq,
        "]; b_answers := {{| a_setup := {setup}; a_map0 := {}; a_adv0 := {}; a_map1 := {}; a_adv1 := {}; a_map2 := {}; a_adv2 := {}; a_register := {reg} |}} |}}",
        map(0),
        adv(0),
        map(1),
        adv(1),
        map(2),
        adv(2)
    );
    let _ = write!(json, "],\"kernel\":\"simulated\",\"refusal\":{},\"outcome\":{}}}", out::jstr(inj.label), out::jstr(&out.text));

    let mut tags = vec![format!("refusal:{}", inj.label), format!("outcome:{}", ["ok", "os-error", "unsupported", "panic", "other"][out.class as usize])];
    if invalid_for_linux(&want).is_some() {
        tags.push("config:invalid-for-linux".into());
    }
    for (on, t) in [
        (want.kthread, "kernel_thread"),
        (want.single, "single_issuer"),
        (want.defer, "defer_taskrun"),
        (want.disabled, "disabled"),
        (want.attach, "attach"),
        (want.clamp, "clamp"),
        (want.cq.is_some(), "cq_size"),
        (want.cpu.is_some(), "cpu_affinity"),
        (want.idle.is_some(), "idle_timeout"),
        (want.direct.is_some(), "direct_descriptors"),
    ] {
        if on {
            tags.push(format!("set:{t}"));
        }
    }
    if ring_ok {
        tags.push("ring-built-and-dropped".into());
    }
    Case {
        coq,
        obs,
        json,
        oracle: problems.into_iter().next(),
        known: None,
        tags,
        nontrivial: !(setters.is_empty() && inj.label == "none"),
    }
}

// --- real kernel -----------------------------------------------------------------------------------

struct RealCase {
    label: &'static str,
    setters: Vec<Setter>,
    /// Lower RLIMIT_AS so that a mapping of this many bytes cannot succeed.
    squeeze: bool,
}

fn real_cases() -> Vec<RealCase> {
    let c = |label, setters: Vec<Setter>| RealCase { label, setters, squeeze: false };
    vec![
        c("default", vec![]),
        c("sq=0 (EINVAL)", vec![Setter::Sq(0)]),
        c("sq=32769 no clamp (EINVAL)", vec![Setter::Sq(32769)]),
        c("cq<sq (EINVAL)", vec![Setter::Sq(16), Setter::Cq(1)]),
        c("cq=2^30 no clamp (EINVAL)", vec![Setter::Cq(1 << 30)]),
        c("defer without single issuer (EINVAL)", vec![Setter::Defer]),
        c("affinity without kernel thread (EINVAL)", vec![Setter::Cpu(0)]),
        c("direct descriptors u32::MAX (EMFILE after the mappings exist)", vec![Setter::Sq(8), Setter::Direct(u32::MAX)]),
        c("direct descriptors 0 (EINVAL after the mappings exist)", vec![Setter::Sq(8), Setter::Direct(0)]),
        c("direct descriptors 2^20 on a large ring", vec![Setter::Sq(1024), Setter::Cq(4096), Setter::Direct(1 << 20)]),
        c("small", vec![Setter::Sq(4), Setter::Cq(64)]),
        c("single issuer + defer", vec![Setter::Single, Setter::Defer, Setter::Sq(8)]),
        c("maximum size", vec![Setter::Max]),
        c("disabled", vec![Setter::Disable, Setter::Sq(2)]),
        c("direct descriptors 8", vec![Setter::Direct(8)]),
        c("attach", vec![Setter::Attach, Setter::Sq(8)]),
        c("kernel thread", vec![Setter::KThread, Setter::Idle(0, 5_000_000), Setter::Sq(4)]),
        c("kernel thread + affinity", vec![Setter::KThread, Setter::Cpu(0), Setter::Sq(4)]),
        RealCase { label: "address space limit: a mapping fails", setters: vec![Setter::Max], squeeze: true },
        RealCase { label: "address space limit, large cq", setters: vec![Setter::Sq(8), Setter::Cq(65536)], squeeze: true },
    ]
}

fn vm_bytes() -> u64 {
    std::fs::read_to_string("/proc/self/statm")
        .ok()
        .and_then(|t| t.split(' ').next().and_then(|v| v.parse::<u64>().ok()))
        .unwrap_or(0)
        * 4096
}

fn real_case(rc: &RealCase) -> Case {
    a10::verif::uninstall();
    let mut problems: Vec<String> = Vec::new();
    let other = a10::Ring::config().with_submission_queue_size(2).build();
    let other = match other {
        Ok(r) => r,
        Err(e) => {
            return Case {
                coq: String::new(),
                obs: vec![],
                json: format!("{{\"kernel\":\"real\",\"case\":{},\"note\":{}}}", out::jstr(rc.label), out::jstr(&format!("io_uring unavailable: {e}"))),
                oracle: None,
                known: None,
                tags: vec!["real-kernel:unavailable".into()],
                nontrivial: false,
            };
        }
    };
    // Warm up whatever the measurements themselves allocate.
    let _ = (fd_count(), mapped("io_uring"), map_lines());
    let fds_before = fd_count();
    let (rings_before, _) = mapped("io_uring");
    let lines_before = map_lines();

    let mut old = libc::rlimit { rlim_cur: 0, rlim_max: 0 };
    if rc.squeeze {
        unsafe { libc::getrlimit(libc::RLIMIT_AS, &mut old) };
        let lim = libc::rlimit { rlim_cur: vm_bytes() + (192 << 10), rlim_max: old.rlim_max };
        unsafe { libc::setrlimit(libc::RLIMIT_AS, &lim) };
    }
    let res = catch_unwind(AssertUnwindSafe(|| apply(a10::Ring::config(), &rc.setters, Some(&other)).build()));
    if rc.squeeze {
        unsafe { libc::setrlimit(libc::RLIMIT_AS, &old) };
    }
    let out = classify(&res);
    let mut built = false;
    match res {
        Ok(Ok(ring)) => {
            built = true;
            let (rings_now, _) = mapped("io_uring");
            let fds_now = fd_count();
            if rings_now != rings_before + 3 {
                problems.push(format!("a returned ring should hold 3 ring mappings; /proc/self/maps shows {} more than before", rings_now as i64 - rings_before as i64));
            }
            if fds_now != fds_before + 1 {
                problems.push(format!("a returned ring should hold one descriptor; the process has {} more than before", fds_now as i64 - fds_before as i64));
            }
            if catch_unwind(AssertUnwindSafe(move || drop(ring))).is_err() {
                problems.push("dropping the ring panicked".into());
            }
        }
        Ok(Err(_)) => {}
        Err(_) => problems.push("build panicked".into()),
    }
    let fds_end = fd_count();
    let (rings_end, _) = mapped("io_uring");
    let lines_end = map_lines();
    let after = if built { "build and drop" } else { "the failed build" };
    if fds_end != fds_before {
        problems.push(format!("{} descriptor(s) left behind after {after} ({})", fds_end as i64 - fds_before as i64, out.text));
    }
    if rings_end != rings_before {
        problems.push(format!("{} ring mapping(s) left behind after {after} ({})", rings_end as i64 - rings_before as i64, out.text));
    }
    if lines_end != lines_before {
        problems.push(format!("/proc/self/maps has {} line(s) more after {after} ({})", lines_end as i64 - lines_before as i64, out.text));
    }
    drop(other);
    let mut json = String::from("{\"setters\":[");
    for (i, s) in rc.setters.iter().enumerate() {
        if i > 0 {
            json.push(',');
        }
        json.push_str(&json_setter(s));
    }
    let _ = write!(json, "],\"kernel\":\"real\",\"case\":{},\"outcome\":{}}}", out::jstr(rc.label), out::jstr(&out.text));
    Case {
        coq: String::new(),
        obs: vec![],
        json,
        oracle: problems.into_iter().next(),
        known: None,
        tags: vec![format!("real-kernel:{}", ["ok", "os-error", "unsupported", "panic", "other"][out.class as usize]), format!("real-kernel-outcome:{}:{}", rc.label, out.text)],
        nontrivial: true,
    }
}

pub fn run(args: &Args) -> i32 {
    let silent: Arc<Mutex<Option<String>>> = Arc::new(Mutex::new(None));
    let s2 = silent.clone();
    std::panic::set_hook(Box::new(move |info| {
        *s2.lock().unwrap() = Some(info.to_string());
    }));
    let points = failure_points();
    let n_configs = args.n.unwrap_or(if args.thorough { 1_500 } else { 64 });
    let n_sim = n_configs * points.len();
    let real = if args.thorough { real_cases() } else { Vec::new() };
    let root = Rng::new(args.seed);
    let checked = cfg!(debug_assertions);
    let cases = out::run_forked(&args.out, n_sim + real.len(), 12, &|i| {
        if i < n_sim {
            let config_index = i / points.len();
            let mut r = root.fork(config_index as u64);
            let setters = gen_setters(&mut r, config_index);
            sim_case(&setters, &points[i % points.len()], checked)
        } else {
            real_case(&real[i - n_sim])
        }
    });
    let _ = std::panic::take_hook();
    let spec = Spec { prop: "C18", imports: &["Model.Build"], run_fn: "run_bcase18", case_ty: "bcase18", shard: 800 };
    let extra = [("configurations", n_configs.to_string()), ("refusal_points", points.len().to_string()), ("real_kernel_cases", real.len().to_string())];
    out::write_all(&args.out, &spec, &cases, &extra);
    0
}

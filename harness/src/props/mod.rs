use crate::Args;

pub mod c03r;
pub mod c04;
pub mod c05;
pub mod c08;
pub mod c07;
pub mod ops;
pub mod c10;
pub mod c11;
pub mod c12;
pub mod c14;
pub mod c16;
pub mod c15;
pub mod c18;
pub mod c13;
pub mod c17;

pub fn run(args: &Args) -> i32 {
    match args.prop.as_str() {
        "C03R" => c03r::run(args),
        "C04" => c04::run(args),
        "C05" => c05::run(args),
        "C08" => c08::run(args),
        "C07" => c07::run(args),
        "C01" | "C02" | "C03" | "C06" | "C09" => ops::run(args),
        "C10" => c10::run(args),
        "C11" => c11::run(args),
        "C12" => c12::run(args),
        "C14" => c14::run(args),
        "smoke" => smoke::run(args),
        "C16" => c16::run(args),
        "C15" => c15::run(args),
        "C18" => c18::run(args),
        "C13" => c13::run(args),
        "C17" => c17::run(args),
        other => {
            eprintln!("no driver for property {other}");
            2
        }
    }
}

pub mod smoke;

use crate::Args;

pub mod c05;
pub mod c14;
pub mod c16;
pub mod c15;
pub mod c17;

pub fn run(args: &Args) -> i32 {
    match args.prop.as_str() {
        "C05" => c05::run(args),
        "C14" => c14::run(args),
        "smoke" => smoke::run(args),
        "C16" => c16::run(args),
        "C15" => c15::run(args),
        "C17" => c17::run(args),
        other => {
            eprintln!("no driver for property {other}");
            2
        }
    }
}

pub mod smoke;

use crate::Args;

pub mod c14;
pub mod c15;

pub fn run(args: &Args) -> i32 {
    match args.prop.as_str() {
        "C14" => c14::run(args),
        "C15" => c15::run(args),
        other => {
            eprintln!("no driver for property {other}");
            2
        }
    }
}

//! C15 — `ReadBuf` edits behave as a capacity-bounded vector confined to its slot.
//!
//! Every case creates a real `ReadBufPool` on a real ring, lets the kernel fill *every* slot
//! of the pool through reads from a pipe, writes known bytes into the unused capacity of
//! every slot, and then applies a generated sequence of edits to one of the `ReadBuf`s and,
//! in parallel, to a plain `Vec<u8>` (growth beyond the pool's buffer size refused). The
//! other `ReadBuf`s of the pool are the canaries for the neighbouring slots. Finally the
//! edited buffer is dropped and the next read must be placed in the very same slot.

use std::fmt::Write as _;
use std::future::{Future, IntoFuture};
use std::ops::{Bound, RangeBounds};
use std::os::fd::{AsRawFd, FromRawFd, OwnedFd};
use std::panic::{self, AssertUnwindSafe};
use std::pin::pin;
use std::task::{Context, Poll, Waker};
use std::time::Duration;

use a10::io::{BufMut, ReadBuf, ReadBufPool};
use a10::{AsyncFd, Ring};

use crate::out::{self, Case, Spec};
use crate::rng::Rng;
use crate::Args;

const DBG: bool = cfg!(debug_assertions);

// ---------------------------------------------------------------------------------------
// Operations.

#[derive(Clone, Copy, Debug)]
enum RForm {
    R(usize, usize),                    // a..b
    RI(usize, usize),                   // a..=b
    To(usize),                          // ..b
    ToI(usize),                         // ..=b
    From(usize),                        // a..
    Full,                               // ..
    Pair(Bound<usize>, Bound<usize>),   // (Bound, Bound)
}

/// Evaluates `$body` with `$r` bound to the range value of the right static type.
macro_rules! with_range {
    ($rf:expr, |$r:ident| $body:expr) => {
        match $rf {
            RForm::R(a, b) => {
                let $r = a..b;
                $body
            }
            RForm::RI(a, b) => {
                let $r = a..=b;
                $body
            }
            RForm::To(b) => {
                let $r = ..b;
                $body
            }
            RForm::ToI(b) => {
                let $r = ..=b;
                $body
            }
            RForm::From(a) => {
                let $r = a..;
                $body
            }
            RForm::Full => {
                let $r = ..;
                $body
            }
            RForm::Pair(a, b) => {
                let $r = (a, b);
                $body
            }
        }
    };
}

impl RForm {
    fn bounds(self) -> (Bound<usize>, Bound<usize>) {
        with_range!(self, |r| (r.start_bound().cloned(), r.end_bound().cloned()))
    }
    fn name(self) -> &'static str {
        match self {
            RForm::R(..) => "a..b",
            RForm::RI(..) => "a..=b",
            RForm::To(..) => "..b",
            RForm::ToI(..) => "..=b",
            RForm::From(..) => "a..",
            RForm::Full => "..",
            RForm::Pair(a, b) => match (a, b) {
                (Bound::Excluded(_), Bound::Excluded(_)) => "(Excl,Excl)",
                (Bound::Excluded(_), Bound::Included(_)) => "(Excl,Incl)",
                (Bound::Excluded(_), Bound::Unbounded) => "(Excl,Unb)",
                (Bound::Included(_), _) => "(Incl,_)",
                (Bound::Unbounded, _) => "(Unb,_)",
            },
        }
    }
    fn text(self) -> String {
        fn b(x: Bound<usize>) -> String {
            match x {
                Bound::Included(n) => format!("Included({n})"),
                Bound::Excluded(n) => format!("Excluded({n})"),
                Bound::Unbounded => "Unbounded".into(),
            }
        }
        match self {
            RForm::R(a, c) => format!("{a}..{c}"),
            RForm::RI(a, c) => format!("{a}..={c}"),
            RForm::To(c) => format!("..{c}"),
            RForm::ToI(c) => format!("..={c}"),
            RForm::From(a) => format!("{a}.."),
            RForm::Full => "..".into(),
            RForm::Pair(a, c) => format!("({}, {})", b(a), b(c)),
        }
    }
}

#[derive(Clone, Debug)]
enum Op {
    Truncate(usize),
    Clear,
    Remove(RForm),
    SetLen(usize),
    Extend(Vec<u8>),
    Spare,
    /// `true`: a real read from the pipe into the already owned buffer; `false`: the provided
    /// `BufMut::extend_from_slice` (parts_mut + copy + set_init).
    Fill(Vec<u8>, bool),
}

fn coq_bound(b: Bound<usize>) -> String {
    match b {
        Bound::Included(n) => format!("Incl {n}"),
        Bound::Excluded(n) => format!("Excl {n}"),
        Bound::Unbounded => "Unb".into(),
    }
}

fn coq_bytes(xs: &[u8]) -> String {
    let mut s = String::from("[");
    for (i, x) in xs.iter().enumerate() {
        if i > 0 {
            s.push(';');
        }
        let _ = write!(s, "{x}");
    }
    s.push(']');
    s
}

impl Op {
    fn coq(&self) -> String {
        match self {
            Op::Truncate(n) => format!("Truncate {n}"),
            Op::Clear => "Clear".into(),
            Op::Remove(rf) => {
                let (a, b) = rf.bounds();
                format!("Remove ({}) ({})", coq_bound(a), coq_bound(b))
            }
            Op::SetLen(n) => format!("SetLen {n}"),
            Op::Extend(xs) => format!("Extend {}", coq_bytes(xs)),
            Op::Spare => "Spare".into(),
            Op::Fill(xs, _) => format!("Fill {}", coq_bytes(xs)),
        }
    }
    fn json(&self) -> String {
        match self {
            Op::Truncate(n) => format!("\"truncate({n})\""),
            Op::Clear => "\"clear()\"".into(),
            Op::Remove(rf) => format!("\"remove({})\"", rf.text()),
            Op::SetLen(n) => format!("\"set_len({n})\""),
            Op::Extend(xs) => format!("\"extend_from_slice({xs:?})\""),
            Op::Spare => "\"spare_capacity_mut().len()\"".into(),
            Op::Fill(xs, true) => format!("\"pipe<-{xs:?}; fd.read(buf)\""),
            Op::Fill(xs, false) => format!("\"BufMut::extend_from_slice({xs:?})\""),
        }
    }
    fn tag(&self) -> String {
        match self {
            Op::Truncate(_) => "op:truncate".into(),
            Op::Clear => "op:clear".into(),
            Op::Remove(rf) => format!("op:remove {}", rf.name()),
            Op::SetLen(_) => "op:set_len".into(),
            Op::Extend(_) => "op:extend_from_slice".into(),
            Op::Spare => "op:spare_capacity_mut".into(),
            Op::Fill(_, true) => "op:repeated read (kernel)".into(),
            Op::Fill(_, false) => "op:BufMut::extend_from_slice (parts_mut/set_init)".into(),
        }
    }
}

// ---------------------------------------------------------------------------------------
// Real ring plumbing.

fn block_on<F: IntoFuture>(ring: &mut Ring, fut: F) -> F::Output {
    let mut fut = pin!(fut.into_future());
    let waker = Waker::noop();
    let mut cx = Context::from_waker(waker);
    for _ in 0..10_000 {
        match fut.as_mut().poll(&mut cx) {
            Poll::Ready(r) => return r,
            Poll::Pending => ring.poll(Some(Duration::from_secs(10))).expect("ring.poll failed"),
        }
    }
    panic!("future did not complete");
}

struct Pipe {
    rd: AsyncFd,
    /// A duplicate of the read end for the synchronous drain of left-overs.
    rd_sync: OwnedFd,
    wr: OwnedFd,
}

fn new_pipe(ring: &Ring) -> Pipe {
    let mut fds = [0i32; 2];
    let rc = unsafe { libc::pipe2(fds.as_mut_ptr(), libc::O_CLOEXEC) };
    assert_eq!(rc, 0, "pipe2 failed");
    let rd = unsafe { OwnedFd::from_raw_fd(fds[0]) };
    let wr = unsafe { OwnedFd::from_raw_fd(fds[1]) };
    let rd_sync = rd.try_clone().expect("dup failed");
    Pipe { rd: AsyncFd::new(rd, ring.sq()), rd_sync, wr }
}

fn pipe_write(p: &Pipe, bytes: &[u8]) {
    if bytes.is_empty() {
        return;
    }
    let n = unsafe { libc::write(p.wr.as_raw_fd(), bytes.as_ptr().cast(), bytes.len()) };
    assert_eq!(n as usize, bytes.len(), "short write into the pipe");
}

/// Takes `n` left-over bytes out of the pipe again (synchronously, they are there).
fn pipe_drain(p: &Pipe, n: usize) {
    let rd_raw = p.rd_sync.as_raw_fd();
    let mut left = n;
    let mut tmp = [0u8; 256];
    while left > 0 {
        let k = unsafe { libc::read(rd_raw, tmp.as_mut_ptr().cast(), left.min(tmp.len())) };
        assert!(k > 0, "pipe drain failed");
        left -= k as usize;
    }
}

/// All `cap` bytes of the slot behind an owned `ReadBuf`: its contents followed by its
/// unused capacity (which this driver initialised before the edits started).
fn slot_bytes(rb: &mut ReadBuf, cap: usize) -> Vec<u8> {
    let mut v = rb.as_slice().to_vec();
    for b in rb.spare_capacity_mut() {
        v.push(unsafe { b.assume_init_read() });
    }
    // Exactly the slot, whatever the buffer claims (`extent` checks the claim).
    v.resize(cap, 0);
    v
}

/// `len() + spare_capacity_mut().len()`: must be the capacity.
fn extent(rb: &mut ReadBuf) -> usize {
    rb.len() + rb.spare_capacity_mut().len()
}

fn addr(rb: &ReadBuf) -> usize {
    rb.as_slice().as_ptr() as usize
}

// ---------------------------------------------------------------------------------------
// Generation.

fn rand_bytes(r: &mut Rng, n: usize) -> Vec<u8> {
    (0..n).map(|_| r.next() as u8).collect()
}

fn pick_len(r: &mut Rng, cap: usize) -> usize {
    match r.below(6) {
        0 => 1,
        1 => cap,
        2 => cap.saturating_sub(1).max(1),
        _ => r.range(1, cap as u64) as usize,
    }
}

/// An index that is interesting relative to the current length `len` and capacity `cap`.
fn idx(r: &mut Rng, len: usize, cap: usize) -> usize {
    match r.below(16) {
        0 => 0,
        1 => 1,
        2 => len,
        3 => len.saturating_sub(1),
        4 => len + 1,
        5 => len / 2,
        6 => cap,
        7 => cap + 1,
        8 => usize::MAX,
        9 => usize::MAX - 1,
        _ => r.range(0, len as u64) as usize,
    }
}

fn gen_range(r: &mut Rng, len: usize, cap: usize) -> RForm {
    // Two thirds: a range that is valid for the current length, in a random form.
    let (a, b) = if r.chance(2, 3) {
        let a = r.range(0, len as u64) as usize;
        let b = r.range(a as u64, len as u64) as usize;
        match r.below(5) {
            0 => (0, b),
            1 => (a, len),
            2 => (a, a),
            _ => (a, b),
        }
    } else {
        (idx(r, len, cap), idx(r, len, cap))
    };
    match r.below(12) {
        0 | 1 => RForm::R(a, b),
        2 => {
            // a..=b' covering a..b when possible.
            if b > a { RForm::RI(a, b - 1) } else { RForm::RI(a, b) }
        }
        3 => RForm::To(b),
        4 => {
            if b > 0 && r.chance(2, 3) { RForm::ToI(b - 1) } else { RForm::ToI(b) }
        }
        5 => RForm::From(a),
        6 => RForm::Full,
        7 => {
            // (Excluded(a'), Excluded(b)) covering a..b when possible.
            if a > 0 && r.chance(2, 3) {
                RForm::Pair(Bound::Excluded(a - 1), Bound::Excluded(b))
            } else {
                RForm::Pair(Bound::Excluded(a), Bound::Excluded(b))
            }
        }
        8 => {
            let s = if a > 0 && r.chance(2, 3) { a - 1 } else { a };
            let e = if b > 0 && r.chance(2, 3) { b - 1 } else { b };
            RForm::Pair(Bound::Excluded(s), Bound::Included(e))
        }
        9 => {
            let s = if a > 0 && r.chance(2, 3) { a - 1 } else { a };
            RForm::Pair(Bound::Excluded(s), Bound::Unbounded)
        }
        10 => RForm::Pair(Bound::Included(a), *r.pick(&[Bound::Excluded(b), Bound::Included(b), Bound::Unbounded])),
        _ => RForm::Pair(Bound::Unbounded, *r.pick(&[Bound::Excluded(b), Bound::Included(b), Bound::Unbounded])),
    }
}

fn gen_op(r: &mut Rng, len: usize, cap: usize, owned: bool) -> Op {
    match r.below(16) {
        0 | 1 => Op::Truncate(idx(r, len, cap)),
        2 => Op::Clear,
        3..=7 => Op::Remove(gen_range(r, len, cap)),
        8 | 9 => {
            let n = match r.below(6) {
                0 => cap,
                1 if DBG => cap + 1,               // contract violation: only with the debug assertion
                2 if DBG => idx(r, len, cap),      // may exceed the capacity as well
                _ => r.range(0, cap as u64) as usize,
            };
            Op::SetLen(n)
        }
        10 | 11 => {
            let spare = cap.saturating_sub(len);
            let n = match r.below(6) {
                0 => 0,
                1 => spare,
                2 => spare + 1,
                3 => cap + 1,
                _ => r.range(0, spare as u64 + 2) as usize,
            };
            Op::Extend(rand_bytes(r, n))
        }
        12 => Op::Spare,
        _ => {
            let spare = cap.saturating_sub(len);
            let n = match r.below(5) {
                0 => 1,
                1 => spare.max(1),
                2 => spare + 1,
                _ => r.range(1, spare as u64 + 3) as usize,
            };
            let real = owned && r.chance(1, 2);
            let n = if !real && r.chance(1, 8) { 0 } else { n };
            Op::Fill(rand_bytes(r, n), real)
        }
    }
}

// ---------------------------------------------------------------------------------------
// One case.

struct Obs {
    obs: Vec<i128>,
    oracle: Option<String>,
    known: Option<String>,
}

impl Obs {
    /// The first failure of a case is the one reported. (No known-finding class is left for
    /// this property: H23 is repaired.)
    fn fail(&mut self, what: String) {
        if self.oracle.is_none() {
            self.oracle = Some(what);
        }
    }
}

/// The reference: a plain `Vec<u8>` whose growth beyond `cap` is refused. Returns (code, value).
fn vec_apply(v: &mut Vec<u8>, cap: usize, op: &Op) -> (i128, i128) {
    match op {
        Op::Truncate(n) => {
            v.truncate(*n);
            (0, 0)
        }
        Op::Clear => {
            v.clear();
            (0, 0)
        }
        Op::Remove(rf) => {
            let res = panic::catch_unwind(AssertUnwindSafe(|| {
                with_range!(*rf, |r| drop(v.drain(r)))
            }));
            if res.is_ok() { (0, 0) } else { (2, 0) }
        }
        Op::SetLen(n) => {
            if *n <= cap {
                // All `cap` bytes of the allocation were initialised when the vector was made.
                unsafe { v.set_len(*n) };
                (0, 0)
            } else {
                (2, 0)
            }
        }
        Op::Extend(xs) => {
            if v.len() + xs.len() <= cap {
                v.extend_from_slice(xs);
                (0, 0)
            } else {
                (1, 0)
            }
        }
        Op::Spare => (0, (cap - v.len()) as i128),
        Op::Fill(xs, _) => {
            let k = xs.len().min(cap - v.len());
            v.extend_from_slice(&xs[..k]);
            (0, k as i128)
        }
    }
}

/// Applies `op` to the real buffer. `rb` is an `Option` only because a real read moves the
/// buffer into the operation and back. Returns (code, value).
fn rb_apply(ring: &mut Ring, pipe: &Pipe, rb: &mut Option<ReadBuf>, cap: usize, op: &Op) -> (i128, i128) {
    let buf = rb.as_mut().unwrap();
    match op {
        Op::Truncate(n) => match panic::catch_unwind(AssertUnwindSafe(|| buf.truncate(*n))) {
            Ok(()) => (0, 0),
            Err(_) => (2, 0),
        },
        Op::Clear => match panic::catch_unwind(AssertUnwindSafe(|| buf.clear())) {
            Ok(()) => (0, 0),
            Err(_) => (2, 0),
        },
        Op::Remove(rf) => {
            let res = panic::catch_unwind(AssertUnwindSafe(|| with_range!(*rf, |r| buf.remove(r))));
            if res.is_ok() { (0, 0) } else { (2, 0) }
        }
        Op::SetLen(n) => {
            // In a build without debug assertions a length beyond the capacity is never
            // generated (it would be undefined behaviour on the caller's side).
            assert!(DBG || *n <= cap);
            match panic::catch_unwind(AssertUnwindSafe(|| unsafe { buf.set_len(*n) })) {
                Ok(()) => (0, 0),
                Err(_) => (2, 0),
            }
        }
        Op::Extend(xs) => match panic::catch_unwind(AssertUnwindSafe(|| buf.extend_from_slice(xs))) {
            Ok(Ok(())) => (0, 0),
            Ok(Err(())) => (1, 0),
            Err(_) => (2, 0),
        },
        Op::Spare => match panic::catch_unwind(AssertUnwindSafe(|| buf.spare_capacity_mut().len())) {
            Ok(n) => (0, n as i128),
            Err(_) => (2, 0),
        },
        Op::Fill(xs, false) => {
            match panic::catch_unwind(AssertUnwindSafe(|| BufMut::extend_from_slice(buf, xs))) {
                Ok(n) => (0, n as i128),
                Err(_) => (2, 0),
            }
        }
        Op::Fill(xs, true) => {
            let before = buf.len();
            pipe_write(pipe, xs);
            let b = rb.take().unwrap();
            let b = block_on(ring, pipe.rd.read(b)).expect("repeated read failed");
            let k = b.len() as i128 - before as i128;
            *rb = Some(b);
            // What the kernel took out of the pipe does not depend on what the buffer reports.
            let taken = xs.len().min(cap.saturating_sub(before));
            pipe_drain(pipe, xs.len() - taken);
            (0, k)
        }
    }
}

fn case_json(cap: usize, psize: usize, slot: Option<usize>, fill: usize, ops: &[Op], refill: usize) -> String {
    let mut j = String::new();
    let _ = write!(
        j,
        "{{\"debug_build\":{DBG},\"buf_size\":{cap},\"pool_size\":{psize},\"slot\":{},\"fill\":{fill},\"refill\":{refill},\"ops\":[",
        slot.map(|s| s.to_string()).unwrap_or_else(|| "null".into())
    );
    for (i, op) in ops.iter().enumerate() {
        if i > 0 {
            j.push(',');
        }
        j.push_str(&op.json());
    }
    j.push_str("]}");
    j
}

fn coq_case(cap: usize, mem: &[u8], fill: Option<(usize, usize)>, ops: &[Op], refill: usize) -> String {
    let mut s = String::new();
    let _ = write!(
        s,
        "{{| c_dbg := {}; c_cap := {cap}; c_mem := {}; c_fill := {}; c_ops := [",
        if DBG { "true" } else { "false" },
        coq_bytes(mem),
        match fill {
            Some((id, n)) => format!("Some ({id}, {n})"),
            None => "None".into(),
        }
    );
    for (i, op) in ops.iter().enumerate() {
        if i > 0 {
            s.push_str("; ");
        }
        s.push_str(&op.coq());
    }
    let _ = write!(s, "]; c_refill := {refill} |}}%N");
    s
}

fn outcome_tag(code: i128) -> &'static str {
    match code {
        0 => "outcome:ok",
        1 => "outcome:refused (Err)",
        _ => "outcome:rejected (panic)",
    }
}

/// `owned = None`: outside the property (nothing was filled yet); model correspondence only.
fn unowned_case(ring: &mut Ring, r: &mut Rng) -> Case {
    let psize = 1usize << r.below(4);
    let cap = r.range(1, 64) as usize;
    let pool = ReadBufPool::new(ring.sq(), psize as u16, cap as u32).expect("ReadBufPool::new");
    let pipe = new_pipe(ring);
    let mut rb = Some(pool.get());
    let nops = r.range(1, 6) as usize;
    let mut ops = Vec::new();
    let mut o = Obs { obs: Vec::new(), oracle: None, known: None };
    let mut tags = vec!["state:not owned (model tie only)".to_string()];
    for _ in 0..nops {
        let op = gen_op(r, 0, cap, false);
        let (code, val) = rb_apply(ring, &pipe, &mut rb, cap, &op);
        let b = rb.as_ref().unwrap();
        o.obs.extend([code, val, b.len() as i128, b.spare_capacity() as i128]);
        tags.push(op.tag());
        tags.push(outcome_tag(code).into());
        ops.push(op);
    }
    o.obs.push(-1);
    drop(rb);
    Case {
        coq: coq_case(cap, &[], None, &ops, 0),
        obs: o.obs,
        json: case_json(cap, psize, None, 0, &ops, 0),
        oracle: None,
        known: None,
        tags,
        nontrivial: false,
    }
}

fn owned_case(ring: &mut Ring, r: &mut Rng, forced: Option<(usize, usize, usize, Vec<Op>)>) -> Case {
    let (psize, cap) = match &forced {
        Some((p, c, _, _)) => (*p, *c),
        None => {
            let psize = 1usize << r.below(4);
            let cap = match r.below(8) {
                0 => 1,
                1 => 2,
                2 => 64,
                _ => r.range(1, 64) as usize,
            };
            (psize, cap)
        }
    };
    let pool = ReadBufPool::new(ring.sq(), psize as u16, cap as u32).expect("ReadBufPool::new");
    let pipe = new_pipe(ring);
    let mut o = Obs { obs: Vec::new(), oracle: None, known: None };
    let mut tags: Vec<String> = Vec::new();

    // Which of the reads becomes the edited buffer, and how much the kernel stores in it.
    let target_k = r.below(psize as u64) as usize;
    let target_fill = match &forced {
        Some((_, _, f, _)) => *f,
        None => pick_len(r, cap),
    };

    // Fill every slot of the pool through a real read.
    let mut bufs: Vec<ReadBuf> = Vec::with_capacity(psize);
    for k in 0..psize {
        let n = if k == target_k { target_fill } else { pick_len(r, cap) };
        let bytes = rand_bytes(r, n);
        pipe_write(&pipe, &bytes);
        let b = block_on(ring, pipe.rd.read(pool.get())).expect("read into the pool failed");
        if b.as_slice() != &bytes[..] {
            o.fail(format!("fill: kernel stored {bytes:?} but the buffer shows {:?}", b.as_slice()));
        }
        bufs.push(b);
    }
    let base = bufs.iter().map(addr).min().unwrap();
    let mut slots: Vec<usize> = bufs.iter().map(|b| (addr(b) - base) / cap).collect();
    {
        let mut seen = vec![false; psize];
        for (b, s) in bufs.iter().zip(&slots) {
            if (addr(b) - base) % cap != 0 || *s >= psize || seen[*s] {
                o.fail(format!("fill: buffers are not at distinct slot boundaries: offsets {:?}",
                    bufs.iter().map(|b| addr(b) - base).collect::<Vec<_>>()));
                break;
            }
            seen[*s] = true;
        }
    }
    // Known bytes in every unused capacity.
    for b in bufs.iter_mut() {
        let total = extent(b);
        if total != cap {
            o.fail(format!("fill: len() + spare_capacity_mut().len() = {total}, the capacity is {cap}"));
        }
        let room = cap - b.len().min(cap);
        for u in b.spare_capacity_mut().iter_mut().take(room) {
            u.write(r.next() as u8);
        }
    }
    // Snapshot of the whole pool memory, slot by slot.
    let mut mem0 = vec![0u8; psize * cap];
    for (b, s) in bufs.iter_mut().zip(&slots) {
        let sb = slot_bytes(b, cap);
        mem0[s * cap..(s + 1) * cap].copy_from_slice(&sb);
    }

    let slot = slots.remove(target_k);
    let mut rb = Some(bufs.remove(target_k));
    let target_addr = addr(rb.as_ref().unwrap());
    // The reference vector: same contents, and the same bytes in its unused capacity.
    let mut vec: Vec<u8> = Vec::with_capacity(cap);
    vec.extend_from_slice(&mem0[slot * cap..(slot + 1) * cap]);
    vec.truncate(target_fill);

    let nops = r.range(1, 8) as usize;
    let mut ops: Vec<Op> = Vec::new();
    let forced_ops = forced.map(|f| f.3);
    let nops = forced_ops.as_ref().map_or(nops, Vec::len);
    for i in 0..nops {
        let op = match &forced_ops {
            Some(f) => f[i].clone(),
            None => gen_op(r, vec.len(), cap, true),
        };
        let (vcode, vval) = vec_apply(&mut vec, cap, &op);
        let (code, val) = rb_apply(ring, &pipe, &mut rb, cap, &op);
        let b = rb.as_mut().unwrap();
        let len = b.len();
        let spare = b.spare_capacity() as usize;
        o.obs.extend([code, val, len as i128, spare as i128]);
        let sb = slot_bytes(b, cap);
        o.obs.extend(sb.iter().map(|x| *x as i128));
        // Oracle: the plain vector.
        if code != vcode {
            let what = format!(
                "{}: ReadBuf {} but Vec<u8> (capacity {cap}) {} (len before: see case, op #{i})",
                op.json(), outcome_tag(code), outcome_tag(vcode));
            o.fail(what);
        } else if val != vval {
            o.fail(format!("{}: returned {val}, Vec<u8> gives {vval}", op.json()));
        }
        if b.as_slice() != &vec[..] || len != vec.len() {
            o.fail(format!("after {} (op #{i}): ReadBuf = {:?}, Vec<u8> = {:?}", op.json(), b.as_slice(), vec));
        }
        if b.is_empty() != vec.is_empty() || b.capacity() != cap || spare != cap - len.min(cap) {
            o.fail(format!("after {} (op #{i}): is_empty/capacity/spare_capacity disagree with len {len}, capacity {cap}", op.json()));
        }
        if addr(b) != target_addr {
            o.fail(format!("after {} (op #{i}): the buffer moved", op.json()));
        }
        let total = extent(b);
        if total != cap {
            o.fail(format!("after {} (op #{i}): len() + spare_capacity_mut().len() = {total}, the capacity is {cap}", op.json()));
        }
        tags.push(op.tag());
        tags.push(outcome_tag(code).into());
        ops.push(op);
    }

    // Whole pool memory after the edits; the other slots are the canaries.
    let mut mem1 = vec![0u8; psize * cap];
    {
        let b = rb.as_mut().unwrap();
        let sb = slot_bytes(b, cap);
        mem1[slot * cap..(slot + 1) * cap].copy_from_slice(&sb);
    }
    for (b, s) in bufs.iter_mut().zip(&slots) {
        let sb = slot_bytes(b, cap);
        mem1[s * cap..(s + 1) * cap].copy_from_slice(&sb);
        if sb[..] != mem0[s * cap..(s + 1) * cap] {
            o.fail(format!("canary: slot {s} changed while slot {slot} was edited: {:?} -> {sb:?}",
                &mem0[s * cap..(s + 1) * cap]));
        }
    }
    o.obs.extend(mem1.iter().map(|x| *x as i128));

    // Give the edited buffer back; the only free buffer of the pool is now its slot.
    drop(rb.take());
    let refill = pick_len(r, cap);
    let bytes = rand_bytes(r, refill);
    pipe_write(&pipe, &bytes);
    match block_on(ring, pipe.rd.read(pool.get())) {
        Ok(nb) => {
            let off = addr(&nb) as i128 - base as i128;
            let found = if nb.as_slice() == &bytes[..] { off } else { -1 };
            o.obs.extend([found, off, nb.len() as i128]);
            if addr(&nb) != target_addr {
                o.fail(format!("release: slot {slot} was dropped but the next read landed at offset {off} (expected {})", slot * cap));
            }
            if nb.as_slice() != &bytes[..] {
                o.fail(format!("release: next read shows {:?}, the kernel stored {bytes:?}", nb.as_slice()));
            }
            drop(nb);
        }
        Err(e) => {
            o.obs.extend([-2, -2, -2]);
            o.fail(format!("release: the read after dropping the edited buffer failed: {e}"));
            pipe_drain(&pipe, refill);
        }
    }
    // The canaries once more, after the kernel wrote into the released slot.
    for (b, s) in bufs.iter_mut().zip(&slots) {
        if slot_bytes(b, cap)[..] != mem0[s * cap..(s + 1) * cap] {
            o.fail(format!("canary: slot {s} changed by the read after the release of slot {slot}"));
        }
    }
    drop(bufs);

    tags.push(format!("pool_size:{psize}"));
    tags.push(format!("buf_size:{}", match cap { 1 => "1", 2 => "2", 3..=8 => "3-8", 9..=32 => "9-32", 33..=63 => "33-63", _ => "64" }));
    tags.push(format!("fill:{}", if target_fill == cap { "full" } else if target_fill == 1 { "1" } else { "partial" }));
    tags.push(format!("slot:{}", if slot == 0 { "first" } else if slot + 1 == psize { "last" } else { "inner" }));
    Case {
        coq: coq_case(cap, &mem0, Some((slot, target_fill)), &ops, refill),
        obs: o.obs,
        json: case_json(cap, psize, Some(slot), target_fill, &ops, refill),
        oracle: o.oracle,
        known: o.known,
        tags,
        nontrivial: true,
    }
}

static LAST_PANIC: std::sync::Mutex<Option<String>> = std::sync::Mutex::new(None);

pub fn run(args: &Args) -> i32 {
    let n = args.n.unwrap_or(if args.thorough { 20_000 } else { 2_500 });
    // The edits under test panic on purpose; keep stderr readable.
    panic::set_hook(Box::new(|info| {
        let msg = info.to_string();
        *LAST_PANIC.lock().unwrap() = Some(msg.clone());
        if !(msg.contains("slice index") || msg.contains("range") || msg.contains("overflow")
            || msg.contains("assertion failed: new_len") || msg.contains("attempted to index")
            || msg.contains("attempting to remove"))
        {
            eprintln!("{msg}");
        }
    }));
    let root = Rng::new(args.seed);
    // Regression corpus, runs first: the bounds whose `+ 1` overflows `usize` (H23: before the
    // repair a build without overflow checks resolved them to valid ranges; every build must
    // now reject them like `Vec::drain`), then the boundary forms on small buffers.
    let m = usize::MAX;
    let corpus: Vec<(usize, usize, usize, Vec<Op>)> = vec![
        (2, 8, 5, vec![Op::Remove(RForm::Pair(Bound::Excluded(m), Bound::Unbounded))]),
        (2, 8, 5, vec![Op::Remove(RForm::ToI(m))]),
        (2, 8, 5, vec![Op::Remove(RForm::RI(2, m))]),
        (2, 8, 5, vec![Op::Remove(RForm::Pair(Bound::Excluded(m), Bound::Included(m)))]),
        (1, 8, 8, vec![Op::Remove(RForm::R(1, 3)), Op::SetLen(8), Op::Remove(RForm::Full), Op::SetLen(8)]),
        (4, 4, 4, vec![Op::Extend(vec![1]), Op::Truncate(2), Op::Extend(vec![7, 8]), Op::Extend(vec![9])]),
        (4, 4, 2, vec![Op::Remove(RForm::R(3, 2)), Op::Remove(RForm::R(0, 3)), Op::Remove(RForm::R(2, 2)), Op::Remove(RForm::From(3))]),
        (8, 1, 1, vec![Op::Remove(RForm::RI(0, 0)), Op::Fill(vec![5, 6], true), Op::Fill(vec![5], true), Op::Spare]),
    ];
    let n_corpus = corpus.len();
    // Every case runs in a forked worker (a crash inside the code under test costs one case);
    // each worker creates its own ring on first use.
    let ring_cell: std::cell::RefCell<Option<Ring>> = std::cell::RefCell::new(None);
    let cases = out::run_forked(&args.out, n_corpus + n, 12, &|k| {
        let mut guard = ring_cell.borrow_mut();
        let ring = guard.get_or_insert_with(|| Ring::new().expect("cannot create an io_uring ring"));
        let (i, forced) = if k < n_corpus { (1_000_000 + k as u64, Some(corpus[k].clone())) } else { ((k - n_corpus) as u64, None) };
        let mut r = root.fork(i);
        let is_corpus = forced.is_some();
        let res = panic::catch_unwind(AssertUnwindSafe(|| {
            if is_corpus {
                let h23 = forced.as_ref().is_some_and(|f| f.3.iter().any(|op| match op {
                    Op::Remove(rf) => {
                        let (a, b) = rf.bounds();
                        a == Bound::Excluded(usize::MAX) || b == Bound::Included(usize::MAX)
                    }
                    _ => false,
                }));
                let mut case = owned_case(ring, &mut r, forced);
                case.tags.push(if h23 { "corpus:H23".into() } else { "corpus".into() });
                case
            } else if r.chance(1, 12) {
                unowned_case(ring, &mut r)
            } else {
                owned_case(ring, &mut r, None)
            }
        }));
        match res {
            Ok(case) => case,
            Err(_) => {
                // The driver itself could not carry on (the library reported something the driver
                // cannot work with): that is a failing input. The ring may have an operation in
                // flight: use a fresh one for the following cases.
                *guard = None;
                let msg = LAST_PANIC.lock().unwrap().clone().unwrap_or_default();
                Case {
                    coq: String::new(),
                    obs: vec![-1],
                    json: format!("{{\"aborted_case_stream\":{i},\"seed\":{}}}", args.seed),
                    oracle: Some(format!("driver aborted in case stream {i}: {msg}")),
                    known: None,
                    tags: vec!["aborted".into()],
                    nontrivial: false,
                }
            }
        }
    });
    let spec = Spec {
        prop: "C15",
        imports: &["Model.ReadBufEdit"],
        run_fn: "run_rbcase",
        case_ty: "rbcase",
        shard: 500,
    };
    out::write_all(&args.out, &spec, &cases, &[("debug_build", DBG.to_string())]);
    0
}

//! C13 — every operation equals its synchronous call.
//!
//! Encoding cases: every public operation is driven once on the simulated kernel (poll, ring
//! poll, read `Ev::Consumed`), on a regular and on a direct `AsyncFd`; the captured SQE and the
//! memory the kernel would read through its pointers are canonicalised and compared with
//! `Model.Encode.encode`. The oracle is an ABI-level decoder written from the uapi (pinned
//! numbers from `simk::abi`) that rebuilds the synchronous call and compares it with the
//! arguments this driver passed to the a10 method.
//! Result cases: scripted statx / siginfo / option values / result words are fed back through
//! the out-parameters and the accessor values compared with `Model.ResultDecode`.
//! Thorough tier: a differential run of a subset against libc on the real kernel.

use std::fmt::Write as _;
use std::future::Future;
use std::net::{Ipv4Addr, Ipv6Addr, SocketAddr, SocketAddrV4, SocketAddrV6};
use std::os::fd::{AsRawFd, BorrowedFd};
use std::os::unix::ffi::OsStrExt;
use std::panic::{catch_unwind, AssertUnwindSafe};
use std::path::PathBuf;
use std::pin::Pin;
use std::sync::Arc;
use std::task::{Context, Poll, Waker};
use std::time::Duration;

use a10::fd::Kind;
use a10::{AsyncFd, Ring, SubmissionQueue};

use crate::out::{self, Case, Spec};
use crate::rng::Rng;
use crate::simk::{self, abi, Ev};
use crate::Args;

// Pinned uapi numbers not in `simk::abi`.
const SOCKET_OP_GETSOCKOPT: u64 = 2;
const SOCKET_OP_SETSOCKOPT: u64 = 3;
const SOCKET_OP_GETSOCKNAME: u64 = 5;
const RECV_MULTISHOT: u16 = 2;
const ACCEPT_MULTISHOT: u16 = 1;
const POLL_ADD_MULTI: u32 = 1;
const FSYNC_DATASYNC: u32 = 1;
const SPLICE_F_FD_IN_FIXED: u32 = 1 << 31;
const O_CLOEXEC: u32 = 0x80000;
const MSG_NOSIGNAL: u32 = 0x4000;

#[derive(Clone, Copy, Debug, PartialEq, Eq)]
pub enum Kd {
    Regular,
    Direct,
}

impl Kd {
    fn coq(self) -> &'static str {
        match self {
            Kd::Regular => "Regular",
            Kd::Direct => "Direct",
        }
    }
    fn kind(self) -> Kind {
        match self {
            Kd::Regular => Kind::File,
            Kd::Direct => Kind::Direct,
        }
    }
}

// ---------------------------------------------------------------------------------------------
// Caller memory: every buffer handed to a10 lives in a registered region.

#[derive(Default)]
struct Regions {
    v: Vec<(usize, usize)>,
}

impl Regions {
    fn add(&mut self, base: *const u8, cap: usize) -> usize {
        self.v.push((base as usize, cap));
        self.v.len() - 1
    }
    fn classify(&self, p: u64) -> Option<(usize, usize)> {
        let p = p as usize;
        self.v.iter().position(|&(b, c)| p >= b && p <= b + c).map(|i| (i, p - self.v[i].0))
    }
}

/// Class and payload of a pointer-typed field: 0 = NULL, 10+r = caller region r (offset), 3 = a10's.
fn ptr_word(regs: &Regions, v: u64) -> [i128; 2] {
    if v == 0 {
        [0, 0]
    } else if let Some((r, off)) = regs.classify(v) {
        [10 + r as i128, off as i128]
    } else {
        [3, 0]
    }
}

fn ptr_str(regs: &Regions, v: u64) -> String {
    if v == 0 {
        "NULL".into()
    } else if let Some((r, off)) = regs.classify(v) {
        format!("R{r}+{off}")
    } else {
        "a10mem".into()
    }
}

/// Is `[p, p+len)` readable? (the kernel's copy_from_user decides, no fault in this process)
fn readable(p: u64, len: usize) -> bool {
    if p == 0 {
        return false;
    }
    if len == 0 {
        return true;
    }
    thread_local! {
        static PIPE: [i32; 2] = {
            let mut fds = [0i32; 2];
            unsafe { libc::pipe2(fds.as_mut_ptr(), libc::O_CLOEXEC | libc::O_NONBLOCK) };
            fds
        };
    }
    PIPE.with(|fds| {
        let mut left = len;
        let mut at = p as usize;
        let mut sink = [0u8; 4096];
        while left > 0 {
            let n = left.min(4096);
            let w = unsafe { libc::write(fds[1], at as *const libc::c_void, n) };
            if w <= 0 {
                return false;
            }
            unsafe { libc::read(fds[0], sink.as_mut_ptr().cast(), w as usize) };
            left -= w as usize;
            at += w as usize;
        }
        true
    })
}

fn read_bytes(p: u64, len: usize) -> Option<Vec<u8>> {
    if !readable(p, len) {
        return None;
    }
    Some(unsafe { std::slice::from_raw_parts(p as usize as *const u8, len) }.to_vec())
}

fn read_cstr(p: u64) -> Option<Vec<u8>> {
    let mut out = Vec::new();
    let mut at = p;
    loop {
        if !readable(at, 1) || out.len() > 5000 {
            return None;
        }
        let b = unsafe { *(at as usize as *const u8) };
        if b == 0 {
            return Some(out);
        }
        out.push(b);
        at += 1;
    }
}

fn read_u32(p: u64) -> Option<u32> {
    read_bytes(p, 4).map(|b| u32::from_ne_bytes([b[0], b[1], b[2], b[3]]))
}

fn read_iov(p: u64, n: usize) -> Option<Vec<(u64, u64)>> {
    if n > 1024 {
        return None;
    }
    let b = read_bytes(p, n * 16)?;
    Some(
        (0..n)
            .map(|i| {
                let base = u64::from_ne_bytes(b[i * 16..i * 16 + 8].try_into().unwrap());
                let len = u64::from_ne_bytes(b[i * 16 + 8..i * 16 + 16].try_into().unwrap());
                (base, len)
            })
            .collect(),
    )
}

struct MsgHdr {
    name: u64,
    namelen: u32,
    iov: u64,
    iovlen: u64,
    control: u64,
    controllen: u64,
    flags: i32,
}

fn read_msghdr(p: u64) -> Option<MsgHdr> {
    let b = read_bytes(p, 56)?;
    let u = |o: usize| u64::from_ne_bytes(b[o..o + 8].try_into().unwrap());
    Some(MsgHdr {
        name: u(0),
        namelen: u32::from_ne_bytes(b[8..12].try_into().unwrap()),
        iov: u(16),
        iovlen: u(24),
        control: u(32),
        controllen: u(40),
        flags: i32::from_ne_bytes(b[48..52].try_into().unwrap()),
    })
}

fn push_bytes(o: &mut Vec<i128>, b: &[u8]) {
    o.push(b.len() as i128);
    o.extend(b.iter().map(|x| *x as i128));
}

// ---------------------------------------------------------------------------------------------
// ABI typing of the three 64-bit words: which are pointers (by pinned opcode).

fn ptr_fields(s: &abi::Sqe) -> (bool, bool, bool) {
    match s.opcode {
        abi::OP_READ | abi::OP_WRITE | abi::OP_READ_MULTISHOT | abi::OP_RECV | abi::OP_READV | abi::OP_WRITEV
        | abi::OP_SENDMSG | abi::OP_SENDMSG_ZC | abi::OP_RECVMSG | abi::OP_OPENAT | abi::OP_MKDIRAT
        | abi::OP_UNLINKAT | abi::OP_CONNECT | abi::OP_BIND | abi::OP_FILES_UPDATE | abi::OP_PIPE
        | abi::OP_MADVISE => (false, true, false),
        abi::OP_SEND | abi::OP_SEND_ZC | abi::OP_STATX | abi::OP_RENAMEAT | abi::OP_ACCEPT => (true, true, false),
        abi::OP_WAITID => (true, false, false),
        abi::OP_URING_CMD => match s.off & 0xffff_ffff {
            SOCKET_OP_GETSOCKOPT | SOCKET_OP_SETSOCKOPT => (false, false, true),
            SOCKET_OP_GETSOCKNAME => (false, true, true),
            _ => (false, false, false),
        },
        _ => (false, false, false),
    }
}

/// Canonical rendering of an SQE (same layout as `Model.Encode.render_sqe`).
fn render_sqe(regs: &Regions, s: &abi::Sqe, cancel_target: Option<u64>) -> Vec<i128> {
    let (po, pa, p3) = ptr_fields(s);
    let w = |is_ptr: bool, v: u64| if is_ptr { ptr_word(regs, v) } else { [0, v as i128] };
    let mut o = vec![s.opcode as i128, s.flags as i128, s.ioprio as i128, s.fd as i128];
    o.extend(w(po, s.off));
    if s.opcode == abi::OP_ASYNC_CANCEL && Some(s.addr) == cancel_target {
        o.extend([0, 77]);
    } else {
        o.extend(w(pa, s.addr));
    }
    o.extend([s.len as i128, s.op_flags as i128, s.buf_index as i128, s.file_index as i128]);
    o.extend(w(p3, s.addr3));
    o
}

fn render_iov_at(regs: &Regions, p: u64, n: usize, o: &mut Vec<i128>) {
    match read_iov(p, n) {
        Some(v) => {
            o.push(v.len() as i128);
            for (b, l) in v {
                o.extend(ptr_word(regs, b));
                o.push(l as i128);
            }
        }
        None => o.push(-2),
    }
}

/// What the kernel reads through the pointers (same layout as `Model.Encode.render_mem`).
fn render_mem(regs: &Regions, s: &abi::Sqe) -> Vec<i128> {
    let mut o = Vec::new();
    let cstr = |p: u64, o: &mut Vec<i128>| match read_cstr(p) {
        Some(b) => push_bytes(o, &b),
        None => o.push(-2),
    };
    let bytes = |p: u64, n: usize, o: &mut Vec<i128>| match read_bytes(p, n) {
        Some(b) => push_bytes(o, &b),
        None => o.push(-2),
    };
    match s.opcode {
        abi::OP_READV | abi::OP_WRITEV => {
            if s.addr != 0 {
                render_iov_at(regs, s.addr, s.len as usize, &mut o)
            }
        }
        abi::OP_OPENAT | abi::OP_MKDIRAT | abi::OP_UNLINKAT | abi::OP_STATX => {
            if s.addr != 0 {
                cstr(s.addr, &mut o)
            }
        }
        abi::OP_RENAMEAT => {
            if s.addr != 0 {
                cstr(s.addr, &mut o)
            }
            if s.off != 0 {
                cstr(s.off, &mut o)
            }
        }
        abi::OP_CONNECT | abi::OP_BIND => {
            if s.addr != 0 {
                bytes(s.addr, (s.off as usize).min(4096), &mut o)
            }
        }
        abi::OP_ACCEPT => {
            if s.off != 0 {
                o.push(read_u32(s.off).map(|v| v as i128).unwrap_or(-2))
            }
        }
        abi::OP_SEND | abi::OP_SEND_ZC => {
            if s.off != 0 {
                bytes(s.off, (s.file_index & 0xffff) as usize, &mut o)
            }
        }
        abi::OP_SENDMSG | abi::OP_SENDMSG_ZC | abi::OP_RECVMSG => {
            if s.addr == 0 {
                o.push(-2);
            } else {
                match read_msghdr(s.addr) {
                    None => o.push(-1),
                    Some(m) => {
                        o.extend(ptr_word(regs, m.name));
                        o.push(m.namelen as i128);
                        if s.opcode != abi::OP_RECVMSG && m.name != 0 {
                            bytes(m.name, (m.namelen as usize).min(4096), &mut o);
                        }
                        o.push(m.iovlen as i128);
                        if m.iov != 0 {
                            render_iov_at(regs, m.iov, m.iovlen as usize, &mut o);
                        }
                        o.extend(ptr_word(regs, m.control));
                        o.push(m.controllen as i128);
                        o.push(m.flags as i128);
                    }
                }
            }
        }
        abi::OP_URING_CMD => match s.off {
            SOCKET_OP_SETSOCKOPT => {
                if s.addr3 != 0 {
                    bytes(s.addr3, (s.file_index as usize).min(4096), &mut o)
                }
            }
            SOCKET_OP_GETSOCKNAME => {
                if s.addr3 != 0 {
                    o.push(read_u32(s.addr3).map(|v| v as i128).unwrap_or(-2))
                }
            }
            _ => {}
        },
        abi::OP_FILES_UPDATE => {
            if s.addr != 0 {
                match read_bytes(s.addr, (s.len as usize).min(64) * 4) {
                    Some(b) => {
                        o.push((b.len() / 4) as i128);
                        for c in b.chunks(4) {
                            o.push(i32::from_ne_bytes(c.try_into().unwrap()) as i128);
                        }
                    }
                    None => o.push(-2),
                }
            }
        }
        _ => {}
    }
    o
}

// ---------------------------------------------------------------------------------------------
// Oracle: ABI-level decoder (io_uring_enter(2), liburing's io_uring_prep_*, io_uring/*.c prep
// functions). Pinned numbers only; nothing from a10. Produces the synchronous call as text.

fn hex(b: &[u8]) -> String {
    let mut s = String::new();
    for x in b {
        let _ = write!(s, "{x:02x}");
    }
    s
}

fn f_file(fixed: bool, fd: i64) -> String {
    if fixed { format!("fixed:{fd}") } else { format!("fd:{fd}") }
}

fn f_pos(off: u64) -> String {
    if off == u64::MAX { "cur".into() } else { format!("@{off}") }
}

fn f_new(file_index: u32) -> String {
    match file_index {
        0 => "->regular".into(),
        abi::FILE_INDEX_ALLOC => "->direct(alloc)".into(),
        n => format!("->direct(slot {})", n - 1),
    }
}

fn f_iov(regs: &Regions, v: &[(u64, u64)]) -> String {
    let parts: Vec<String> = v.iter().map(|(b, l)| format!("{}:{}", ptr_str(regs, *b), l)).collect();
    format!("[{}]", parts.join(","))
}

fn abi_call(regs: &Regions, s: &abi::Sqe) -> Result<String, String> {
    let fixed = s.flags & abi::SQE_FIXED_FILE != 0;
    let select = s.flags & abi::SQE_BUFFER_SELECT != 0;
    if s.flags & 0b1110 != 0 {
        return Err("drain/link flags set".into());
    }
    let file = f_file(fixed, s.fd as i64);
    let no_file = |what: &str| -> Result<(), String> {
        if fixed { Err(format!("{what}: IOSQE_FIXED_FILE on a request whose fd is not a file (-EBADF/-EINVAL)")) } else { Ok(()) }
    };
    let need = |c: bool, what: &str| -> Result<(), String> { if c { Ok(()) } else { Err(format!("{what} (-EINVAL)")) } };
    let cloexec_ok = |flags: u32| -> Result<(), String> {
        need(s.file_index == 0 || flags & O_CLOEXEC == 0, "O_CLOEXEC together with a direct result")
    };
    let buf = |s: &abi::Sqe| -> Result<String, String> {
        if select {
            need(s.addr == 0, "addr with buffer select")?;
            Ok(format!("group={}", s.buf_index))
        } else {
            need(s.buf_index == 0, "buf_index without buffer select")?;
            Ok(format!("buf={} len={}", ptr_str(regs, s.addr), s.len))
        }
    };
    let cstr = |p: u64| read_cstr(p).map(|b| hex(&b)).ok_or_else(|| "unreadable path".to_string());
    Ok(match s.opcode {
        abi::OP_READ => {
            need(s.op_flags == 0 && s.ioprio == 0 && s.file_index == 0 && s.addr3 == 0, "stray fields")?;
            format!("read({file}, {}, {})", buf(s)?, f_pos(s.off))
        }
        abi::OP_READ_MULTISHOT => {
            need(select && s.addr == 0 && s.len == 0 && s.op_flags == 0 && s.ioprio == 0 && s.file_index == 0, "read_multishot fields")?;
            format!("read_multishot({file}, group={}, {})", s.buf_index, f_pos(s.off))
        }
        abi::OP_WRITE => {
            need(!select && s.op_flags == 0 && s.ioprio == 0 && s.buf_index == 0 && s.file_index == 0 && s.addr3 == 0, "stray fields")?;
            format!("write({file}, buf={} len={}, {})", ptr_str(regs, s.addr), s.len, f_pos(s.off))
        }
        abi::OP_READV | abi::OP_WRITEV => {
            need(!select && s.op_flags == 0 && s.ioprio == 0 && s.buf_index == 0 && s.file_index == 0 && s.addr3 == 0, "stray fields")?;
            let v = read_iov(s.addr, s.len as usize).ok_or("unreadable iovec array")?;
            format!("{}({file}, {}, {})", if s.opcode == abi::OP_READV { "readv" } else { "writev" }, f_iov(regs, &v), f_pos(s.off))
        }
        abi::OP_FSYNC => {
            need(!select && s.addr == 0 && s.off == 0 && s.len == 0 && s.buf_index == 0 && s.file_index == 0 && s.op_flags & !FSYNC_DATASYNC == 0, "fsync fields")?;
            format!("{}({file})", if s.op_flags & FSYNC_DATASYNC != 0 { "fdatasync" } else { "fsync" })
        }
        abi::OP_FALLOCATE => {
            need(!select && s.op_flags == 0 && s.buf_index == 0 && s.file_index == 0, "fallocate fields")?;
            format!("fallocate({file}, mode={}, offset={}, len={})", s.len, s.off, s.addr)
        }
        abi::OP_FADVISE => {
            need(!select && s.addr == 0 && s.buf_index == 0 && s.file_index == 0, "fadvise fields")?;
            format!("fadvise({file}, offset={}, len={}, advice={})", s.off, s.len, s.op_flags)
        }
        abi::OP_FTRUNCATE => {
            need(!select && s.addr == 0 && s.len == 0 && s.op_flags == 0 && s.buf_index == 0 && s.file_index == 0 && s.addr3 == 0, "ftruncate fields")?;
            format!("ftruncate({file}, {})", s.off)
        }
        abi::OP_STATX => {
            no_file("statx")?;
            need(!select && s.buf_index == 0 && s.file_index == 0, "statx fields")?;
            format!("statx(dirfd={}, path={}, flags={}, mask={}, buf={})", s.fd, cstr(s.addr)?, s.op_flags, s.len, ptr_str(regs, s.off))
        }
        abi::OP_OPENAT => {
            no_file("openat")?;
            need(!select && s.buf_index == 0 && s.off == 0, "openat fields")?;
            cloexec_ok(s.op_flags)?;
            format!("openat(dirfd={}, path={}, flags={}, mode={}){}", s.fd, cstr(s.addr)?, s.op_flags, s.len, f_new(s.file_index))
        }
        abi::OP_CLOSE => {
            no_file("close")?;
            need(!select && s.off == 0 && s.addr == 0 && s.len == 0 && s.op_flags == 0 && s.buf_index == 0, "close fields")?;
            if s.file_index == 0 {
                format!("close(fd:{})", s.fd)
            } else {
                need(s.fd == 0, "close: fd and file_index both set")?;
                format!("close(fixed:{})", s.file_index - 1)
            }
        }
        abi::OP_MKDIRAT => {
            no_file("mkdirat")?;
            need(!select && s.off == 0 && s.op_flags == 0 && s.buf_index == 0 && s.file_index == 0, "mkdirat fields")?;
            format!("mkdirat(dirfd={}, path={}, mode={})", s.fd, cstr(s.addr)?, s.len)
        }
        abi::OP_UNLINKAT => {
            no_file("unlinkat")?;
            need(!select && s.off == 0 && s.len == 0 && s.buf_index == 0 && s.file_index == 0 && s.op_flags & !0x200 == 0, "unlinkat fields")?;
            format!("unlinkat(dirfd={}, path={}, flags={})", s.fd, cstr(s.addr)?, s.op_flags)
        }
        abi::OP_RENAMEAT => {
            no_file("renameat")?;
            need(!select && s.buf_index == 0 && s.file_index == 0, "renameat fields")?;
            format!("renameat(olddirfd={}, old={}, newdirfd={}, new={}, flags={})", s.fd, cstr(s.addr)?, s.len as i32, cstr(s.off)?, s.op_flags)
        }
        abi::OP_SOCKET => {
            no_file("socket")?;
            need(!select && s.addr == 0 && s.op_flags == 0 && s.buf_index == 0 && s.off <= u32::MAX as u64, "socket fields")?;
            cloexec_ok(s.off as u32)?;
            format!("socket(domain={}, type={}, protocol={}){}", s.fd, s.off, s.len, f_new(s.file_index))
        }
        abi::OP_CONNECT | abi::OP_BIND => {
            need(!select && s.len == 0 && s.op_flags == 0 && s.buf_index == 0 && s.file_index == 0, "connect/bind fields")?;
            let sa = read_bytes(s.addr, (s.off as usize).min(4096)).ok_or("unreadable address")?;
            format!("{}({file}, addr={})", if s.opcode == abi::OP_CONNECT { "connect" } else { "bind" }, hex(&sa))
        }
        abi::OP_LISTEN => {
            need(!select && s.addr == 0 && s.off == 0 && s.op_flags == 0 && s.buf_index == 0 && s.file_index == 0, "listen fields")?;
            format!("listen({file}, backlog={})", s.len)
        }
        abi::OP_ACCEPT => {
            need(!select && s.len == 0 && s.buf_index == 0 && s.ioprio & !ACCEPT_MULTISHOT == 0, "accept fields")?;
            cloexec_ok(s.op_flags)?;
            let multi = s.ioprio & ACCEPT_MULTISHOT != 0;
            if multi {
                need(s.addr == 0 && s.off == 0 && (s.file_index == 0 || s.file_index == abi::FILE_INDEX_ALLOC), "multishot accept fields")?;
            }
            let cap = if s.addr == 0 { "none".to_string() } else { read_u32(s.off).ok_or("unreadable socklen")?.to_string() };
            format!("accept4({file}, addr={} cap={cap}, flags={}, multishot={multi}){}", ptr_str(regs, s.addr), s.op_flags, f_new(s.file_index))
        }
        abi::OP_SEND | abi::OP_SEND_ZC => {
            need(!select && s.ioprio == 0 && s.buf_index == 0 && s.addr3 == 0 && s.file_index <= 0xffff, "send fields")?;
            let dest = if s.off == 0 {
                need(s.file_index == 0, "addr_len without an address")?;
                "none".to_string()
            } else {
                hex(&read_bytes(s.off, s.file_index as usize).ok_or("unreadable address")?)
            };
            format!("sendto({file}, buf={} len={}, flags={}, dest={dest}, zc={})", ptr_str(regs, s.addr), s.len, s.op_flags | MSG_NOSIGNAL, s.opcode == abi::OP_SEND_ZC)
        }
        abi::OP_SENDMSG | abi::OP_SENDMSG_ZC => {
            need(!select && s.ioprio == 0 && s.buf_index == 0 && s.off == 0 && s.file_index == 0 && s.len == 1, "sendmsg fields")?;
            let m = read_msghdr(s.addr).ok_or("unreadable msghdr")?;
            let dest = if m.name == 0 {
                need(m.namelen == 0, "msg_namelen without msg_name")?;
                "none".to_string()
            } else {
                hex(&read_bytes(m.name, m.namelen as usize).ok_or("unreadable address")?)
            };
            let v = read_iov(m.iov, m.iovlen as usize).ok_or("unreadable iovec array")?;
            format!("sendmsg({file}, dest={dest}, iov={}, control={} controllen={}, flags={}, zc={})", f_iov(regs, &v), ptr_str(regs, m.control), m.controllen, s.op_flags | MSG_NOSIGNAL, s.opcode == abi::OP_SENDMSG_ZC)
        }
        abi::OP_RECV => {
            need(s.off == 0 && s.file_index == 0 && s.addr3 == 0 && s.ioprio & !RECV_MULTISHOT == 0, "recv fields")?;
            let multi = s.ioprio & RECV_MULTISHOT != 0;
            if multi {
                need(select && s.len == 0, "multishot recv needs buffer select")?;
            }
            format!("recv({file}, {}, flags={}, multishot={multi})", buf(s)?, s.op_flags)
        }
        abi::OP_RECVMSG => {
            need(s.ioprio == 0 && s.off == 0 && s.file_index == 0 && s.len == 1, "recvmsg fields")?;
            let m = read_msghdr(s.addr).ok_or("unreadable msghdr")?;
            let v = read_iov(m.iov, m.iovlen as usize).ok_or("unreadable iovec array")?;
            let sel = if select {
                need(m.iovlen == 1, "recvmsg with buffer select needs one iovec")?;
                format!("group={}", s.buf_index)
            } else {
                need(s.buf_index == 0, "buf_index without buffer select")?;
                "none".to_string()
            };
            format!("recvmsg({file}, name={} namecap={}, iov={}, control={} controllen={}, flags={}, select={sel})", ptr_str(regs, m.name), m.namelen, f_iov(regs, &v), ptr_str(regs, m.control), m.controllen, s.op_flags)
        }
        abi::OP_SHUTDOWN => {
            need(!select && s.off == 0 && s.addr == 0 && s.op_flags == 0 && s.buf_index == 0 && s.file_index == 0, "shutdown fields")?;
            format!("shutdown({file}, how={})", s.len)
        }
        abi::OP_URING_CMD => {
            need(!select && s.off <= u32::MAX as u64 && s.ioprio == 0 && s.len == 0 && s.op_flags == 0 && s.buf_index == 0, "uring_cmd fields")?;
            match s.off {
                SOCKET_OP_GETSOCKOPT => format!("getsockopt({file}, level={}, name={}, val={} len={})", s.addr & 0xffff_ffff, s.addr >> 32, ptr_str(regs, s.addr3), s.file_index),
                SOCKET_OP_SETSOCKOPT => {
                    let v = read_bytes(s.addr3, s.file_index as usize).ok_or("unreadable option value")?;
                    format!("setsockopt({file}, level={}, name={}, val={})", s.addr & 0xffff_ffff, s.addr >> 32, hex(&v))
                }
                SOCKET_OP_GETSOCKNAME => {
                    need(s.file_index <= 1, "peer flag")?;
                    let cap = if s.addr == 0 { "none".to_string() } else { read_u32(s.addr3).ok_or("unreadable socklen")?.to_string() };
                    format!("{}({file}, addr={} cap={cap})", if s.file_index == 1 { "getpeername" } else { "getsockname" }, ptr_str(regs, s.addr))
                }
                other => return Err(format!("unknown socket command {other}")),
            }
        }
        abi::OP_SPLICE => {
            need(!select && s.buf_index == 0 && s.file_index <= i32::MAX as u32, "splice fields")?;
            let fin = f_file(s.op_flags & SPLICE_F_FD_IN_FIXED != 0, s.file_index as i64);
            format!("splice(in={fin} {}, out={file} {}, len={}, flags={})", f_pos(s.addr), f_pos(s.off), s.len, s.op_flags & !SPLICE_F_FD_IN_FIXED)
        }
        abi::OP_PIPE => {
            no_file("pipe")?;
            need(!select && s.fd == 0 && s.off == 0 && s.addr3 == 0 && s.len == 0 && s.buf_index == 0, "pipe fields")?;
            cloexec_ok(s.op_flags)?;
            format!("pipe2(fds={}, flags={}){}", ptr_str(regs, s.addr), s.op_flags, f_new(s.file_index))
        }
        abi::OP_WAITID => {
            no_file("waitid")?;
            need(!select && s.addr == 0 && s.op_flags == 0 && s.buf_index == 0 && s.addr3 == 0, "waitid fields")?;
            format!("waitid(idtype={}, id={}, info={}, options={})", s.len, s.fd, ptr_str(regs, s.off), s.file_index)
        }
        abi::OP_MADVISE => {
            no_file("madvise")?;
            need(!select && s.off == 0 && s.buf_index == 0 && s.file_index == 0, "madvise fields")?;
            format!("madvise(addr={}, len={}, advice={})", ptr_str(regs, s.addr), s.len, s.op_flags)
        }
        abi::OP_POLL_ADD => {
            need(!select && s.off == 0 && s.addr == 0 && s.buf_index == 0 && s.file_index == 0 && s.len & !POLL_ADD_MULTI == 0, "poll_add fields")?;
            format!("poll({file}, events={}, multishot={})", s.op_flags, s.len & POLL_ADD_MULTI != 0)
        }
        abi::OP_FILES_UPDATE => {
            no_file("files_update")?;
            need(!select && s.op_flags == 0 && s.file_index == 0 && s.len != 0, "files_update fields")?;
            let b = read_bytes(s.addr, s.len as usize * 4).ok_or("unreadable fd array")?;
            let fds: Vec<String> = b.chunks(4).map(|c| i32::from_ne_bytes(c.try_into().unwrap()).to_string()).collect();
            let slot = if s.off as u32 == abi::FILE_INDEX_ALLOC { "alloc".to_string() } else { (s.off as u32).to_string() };
            format!("register_files([{}], slot={slot})", fds.join(","))
        }
        abi::OP_FIXED_FD_INSTALL => {
            need(fixed, "fixed_fd_install needs a registered file (-EBADF)")?;
            need(!select && s.off == 0 && s.addr == 0 && s.len == 0 && s.buf_index == 0 && s.file_index == 0 && s.addr3 == 0 && s.op_flags & !1 == 0, "fixed_fd_install fields")?;
            format!("install_fd(fixed:{}, cloexec={})", s.fd, s.op_flags & 1 == 0)
        }
        abi::OP_ASYNC_CANCEL => {
            no_file("cancel")?;
            need(!select && s.off == 0 && s.len == 0 && s.op_flags == 0 && s.buf_index == 0 && s.file_index == 0, "cancel fields")?;
            "cancel(user_data)".to_string()
        }
        other => return Err(format!("opcode {other} is not in the table")),
    })
}

// ---------------------------------------------------------------------------------------------
// Operation descriptions: the arguments this driver passes to the a10 method.

#[derive(Clone, Debug)]
enum BufD {
    User { r: usize, off: usize, len: usize },
    Pool { g: u16 },
}

type IovD = Vec<(usize, usize, usize)>;

#[derive(Clone, Debug)]
enum OpD {
    Read { b: BufD, offset: u64 },
    Readv { iov: IovD, offset: u64 },
    Write { r: usize, off: usize, len: usize, offset: u64 },
    Writev { iov: IovD, offset: u64 },
    MultishotRead { g: u16 },
    SpliceTo { t: i32, len: u32, oi: u64, oo: u64, flags: u32 },
    SpliceFrom { t: i32, len: u32, oi: u64, oo: u64, flags: u32 },
    Close,
    Fsync { data: bool },
    Fallocate { offset: u64, len: u32, mode: u32 },
    Fadvise { offset: u64, len: u32, advice: u32 },
    Ftruncate { len: u64 },
    Statx { mask: u32 },
    Open { path: Vec<u8>, flags: u32, mode: u32, nk: Kd },
    Mkdir { path: Vec<u8> },
    Unlink { path: Vec<u8>, dir: bool },
    Rename { from: Vec<u8>, to: Vec<u8> },
    Socket { domain: i32, ty: u32, proto: u32, nk: Kd },
    Connect { sa: Vec<u8> },
    Bind { sa: Vec<u8> },
    Listen { backlog: u32 },
    Accept { cap: Option<u32>, flags: u32 },
    MultishotAccept { flags: u32 },
    Send { r: usize, off: usize, len: usize, flags: u32, zc: bool },
    SendTo { r: usize, off: usize, len: usize, sa: Option<Vec<u8>>, flags: u32, zc: bool },
    SendMsg { iov: IovD, sa: Option<Vec<u8>>, flags: u32, zc: bool },
    Recv { b: BufD, flags: u32 },
    MultishotRecv { g: u16, flags: u32 },
    RecvMsg { iov: IovD, cap: Option<u32>, flags: u32 },
    RecvFrom { b: BufD, cap: Option<u32>, flags: u32 },
    Shutdown { how: u8 },
    GetSockOpt { level: u32, name: u32, optlen: u32 },
    SetSockOpt { level: u32, name: u32, value: Vec<u8> },
    SockName { peer: bool, cap: Option<u32> },
    Pipe { flags: u32, nk: Kd },
    Waitid { w: (u8, u32), options: u32 },
    SignalRead,
    Madvise { r: usize, off: usize, len: u32, advice: u32 },
    PollRing { ring_fd: i32 },
    ToDirect,
    ToFd,
    Cancel,
}

fn cn<T: std::fmt::Display>(x: T) -> String {
    format!("{x}%N")
}
fn cz(x: i64) -> String {
    if x < 0 { format!("({x})%Z") } else { format!("{x}%Z") }
}
fn cbytes(b: &[u8]) -> String {
    let v: Vec<String> = b.iter().map(|x| format!("{x}%N")).collect();
    format!("[{}]", v.join("; "))
}
fn cobytes(b: &Option<Vec<u8>>) -> String {
    match b {
        Some(b) => format!("(Some {})", cbytes(b)),
        None => "None".into(),
    }
}
fn ccap(c: &Option<u32>) -> String {
    match c {
        Some(c) => format!("(Some {c}%N)"),
        None => "None".into(),
    }
}
fn cbool(b: bool) -> &'static str {
    if b { "true" } else { "false" }
}
fn cbuf(b: &BufD) -> String {
    match b {
        BufD::User { r, off, len } => format!("(UserBuf {r}%N {off}%N {len}%N)"),
        BufD::Pool { g } => format!("(PoolBuf {g}%N)"),
    }
}
fn ciov(v: &IovD) -> String {
    let p: Vec<String> = v.iter().map(|(r, o, l)| format!("({r}%N, {o}%N, {l}%N)")).collect();
    format!("[{}]", p.join("; "))
}

impl OpD {
    fn name(&self) -> &'static str {
        match self {
            OpD::Read { .. } => "read",
            OpD::Readv { .. } => "read_vectored",
            OpD::Write { .. } => "write",
            OpD::Writev { .. } => "write_vectored",
            OpD::MultishotRead { .. } => "multishot_read",
            OpD::SpliceTo { .. } => "splice_to",
            OpD::SpliceFrom { .. } => "splice_from",
            OpD::Close => "close",
            OpD::Fsync { .. } => "sync",
            OpD::Fallocate { .. } => "allocate",
            OpD::Fadvise { .. } => "advise",
            OpD::Ftruncate { .. } => "truncate",
            OpD::Statx { .. } => "metadata",
            OpD::Open { .. } => "open",
            OpD::Mkdir { .. } => "create_dir",
            OpD::Unlink { .. } => "remove",
            OpD::Rename { .. } => "rename",
            OpD::Socket { .. } => "socket",
            OpD::Connect { .. } => "connect",
            OpD::Bind { .. } => "bind",
            OpD::Listen { .. } => "listen",
            OpD::Accept { .. } => "accept",
            OpD::MultishotAccept { .. } => "multishot_accept",
            OpD::Send { .. } => "send",
            OpD::SendTo { .. } => "send_to",
            OpD::SendMsg { .. } => "sendmsg",
            OpD::Recv { .. } => "recv",
            OpD::MultishotRecv { .. } => "multishot_recv",
            OpD::RecvMsg { .. } => "recvmsg",
            OpD::RecvFrom { .. } => "recv_from",
            OpD::Shutdown { .. } => "shutdown",
            OpD::GetSockOpt { .. } => "socket_option",
            OpD::SetSockOpt { .. } => "set_socket_option",
            OpD::SockName { .. } => "socket_name",
            OpD::Pipe { .. } => "pipe",
            OpD::Waitid { .. } => "wait",
            OpD::SignalRead => "signals_receive",
            OpD::Madvise { .. } => "mem_advise",
            OpD::PollRing { .. } => "pollable",
            OpD::ToDirect => "to_direct_descriptor",
            OpD::ToFd => "to_file_descriptor",
            OpD::Cancel => "cancel_on_drop",
        }
    }

    fn coq(&self) -> String {
        match self {
            OpD::Read { b, offset } => format!("ORead {} {}", cbuf(b), cn(offset)),
            OpD::Readv { iov, offset } => format!("OReadv {} {}", ciov(iov), cn(offset)),
            OpD::Write { r, off, len, offset } => format!("OWrite {} {} {} {}", cn(r), cn(off), cn(len), cn(offset)),
            OpD::Writev { iov, offset } => format!("OWritev {} {}", ciov(iov), cn(offset)),
            OpD::MultishotRead { g } => format!("OMultishotRead {}", cn(g)),
            OpD::SpliceTo { t, len, oi, oo, flags } => format!("OSpliceTo {} {} {} {} {}", cn(t), cn(len), cn(oi), cn(oo), cn(flags)),
            OpD::SpliceFrom { t, len, oi, oo, flags } => format!("OSpliceFrom {} {} {} {} {}", cn(t), cn(len), cn(oi), cn(oo), cn(flags)),
            OpD::Close => "OClose".into(),
            OpD::Fsync { data } => format!("OFsync {}", cbool(*data)),
            OpD::Fallocate { offset, len, mode } => format!("OFallocate {} {} {}", cn(offset), cn(len), cn(mode)),
            OpD::Fadvise { offset, len, advice } => format!("OFadvise {} {} {}", cn(offset), cn(len), cn(advice)),
            OpD::Ftruncate { len } => format!("OFtruncate {}", cn(len)),
            OpD::Statx { mask } => format!("OStatx {}", cn(mask)),
            OpD::Open { path, flags, mode, nk } => format!("OOpen {} {} {} {}", cbytes(path), cn(flags), cn(mode), nk.coq()),
            OpD::Mkdir { path } => format!("OMkdir {}", cbytes(path)),
            OpD::Unlink { path, dir } => format!("OUnlink {} {}", cbytes(path), cbool(*dir)),
            OpD::Rename { from, to } => format!("ORename {} {}", cbytes(from), cbytes(to)),
            OpD::Socket { domain, ty, proto, nk } => format!("OSocket {} {} {} {}", cz(*domain as i64), cn(ty), cn(proto), nk.coq()),
            OpD::Connect { sa } => format!("OConnect {}", cbytes(sa)),
            OpD::Bind { sa } => format!("OBind {}", cbytes(sa)),
            OpD::Listen { backlog } => format!("OListen {}", cn(backlog)),
            OpD::Accept { cap, flags } => format!("OAccept {} {}", ccap(cap), cn(flags)),
            OpD::MultishotAccept { flags } => format!("OMultishotAccept {}", cn(flags)),
            OpD::Send { r, off, len, flags, zc } => format!("OSend {} {} {} {} {}", cn(r), cn(off), cn(len), cn(flags), cbool(*zc)),
            OpD::SendTo { r, off, len, sa, flags, zc } => format!("OSendTo {} {} {} {} {} {}", cn(r), cn(off), cn(len), cobytes(sa), cn(flags), cbool(*zc)),
            OpD::SendMsg { iov, sa, flags, zc } => format!("OSendMsg {} {} {} {}", ciov(iov), cobytes(sa), cn(flags), cbool(*zc)),
            OpD::Recv { b, flags } => format!("ORecv {} {}", cbuf(b), cn(flags)),
            OpD::MultishotRecv { g, flags } => format!("OMultishotRecv {} {}", cn(g), cn(flags)),
            OpD::RecvMsg { iov, cap, flags } => format!("ORecvMsg {} {} {}", ciov(iov), ccap(cap), cn(flags)),
            OpD::RecvFrom { b, cap, flags } => format!("ORecvFrom {} {} {}", cbuf(b), ccap(cap), cn(flags)),
            OpD::Shutdown { how } => format!("OShutdown {}", ["ShutRead", "ShutWrite", "ShutBoth"][*how as usize]),
            OpD::GetSockOpt { level, name, optlen } => format!("OGetSockOpt {} {} {}", cn(level), cn(name), cn(optlen)),
            OpD::SetSockOpt { level, name, value } => format!("OSetSockOpt {} {} {}", cn(level), cn(name), cbytes(value)),
            OpD::SockName { peer, cap } => format!("OSockName {} {}", cbool(*peer), ccap(cap)),
            OpD::Pipe { flags, nk } => format!("OPipe {} {}", cn(flags), nk.coq()),
            OpD::Waitid { w, options } => {
                let w = match w.0 {
                    0 => format!("(WProcess {})", cn(w.1)),
                    1 => format!("(WGroup {})", cn(w.1)),
                    _ => "WAll".to_string(),
                };
                format!("OWaitid {w} {}", cn(options))
            }
            OpD::SignalRead => "OSignalRead".into(),
            OpD::Madvise { r, off, len, advice } => format!("OMadvise {} {} {} {}", cn(r), cn(off), cn(len), cn(advice)),
            OpD::PollRing { ring_fd } => format!("OPollRing {}", cn(ring_fd)),
            OpD::ToDirect => "OToDirect".into(),
            OpD::ToFd => "OToFd".into(),
            OpD::Cancel => "OCancel 77%N".into(),
        }
    }

    /// Does the method have an `AsyncFd` target (so that regular/direct applies)?
    fn has_target(&self) -> bool {
        !matches!(
            self,
            OpD::Open { .. } | OpD::Mkdir { .. } | OpD::Unlink { .. } | OpD::Rename { .. } | OpD::Socket { .. } | OpD::Pipe { .. }
                | OpD::Waitid { .. } | OpD::Madvise { .. } | OpD::PollRing { .. } | OpD::Cancel
        )
    }

    /// The synchronous call the method documents, from the arguments passed (text, same
    /// vocabulary as `abi_call`).
    fn expected(&self, k: Kd, fd: i32) -> String {
        let file = f_file(k == Kd::Direct, fd as i64);
        let newk = |nk: Kd| if nk == Kd::Direct { "->direct(alloc)" } else { "->regular" };
        let clo = |nk: Kd, f: u32| if nk == Kd::Regular { f | O_CLOEXEC } else { f };
        let ub = |r: &usize, off: &usize| format!("R{r}+{off}");
        let buf = |b: &BufD| match b {
            BufD::User { r, off, len } => format!("buf={} len={len}", ub(r, off)),
            BufD::Pool { g } => format!("group={g}"),
        };
        let iovs = |v: &IovD| {
            let p: Vec<String> = v.iter().map(|(r, o, l)| format!("R{r}+{o}:{l}")).collect();
            format!("[{}]", p.join(","))
        };
        let dest = |sa: &Option<Vec<u8>>| sa.as_ref().map(|b| hex(b)).unwrap_or_else(|| "none".into());
        let outaddr = |cap: &Option<u32>| match cap {
            Some(c) => ("a10mem", c.to_string()),
            None => ("NULL", "none".to_string()),
        };
        match self {
            OpD::Read { b, offset } => format!("read({file}, {}, {})", buf(b), f_pos(*offset)),
            OpD::Readv { iov, offset } => format!("readv({file}, {}, {})", iovs(iov), f_pos(*offset)),
            OpD::Write { r, off, len, offset } => format!("write({file}, buf={} len={len}, {})", ub(r, off), f_pos(*offset)),
            OpD::Writev { iov, offset } => format!("writev({file}, {}, {})", iovs(iov), f_pos(*offset)),
            // a10 passes offset 0; the kernel ignores the position for the stream-like files
            // READ_MULTISHOT is restricted to.
            OpD::MultishotRead { g } => format!("read_multishot({file}, group={g}, @0)"),
            OpD::SpliceTo { t, len, oi, oo, flags } => format!("splice(in={file} {}, out=fd:{t} {}, len={len}, flags={flags})", f_pos(*oi), f_pos(*oo)),
            OpD::SpliceFrom { t, len, oi, oo, flags } => format!("splice(in=fd:{t} {}, out={file} {}, len={len}, flags={flags})", f_pos(*oi), f_pos(*oo)),
            OpD::Close => format!("close({file})"),
            OpD::Fsync { data } => format!("{}({file})", if *data { "fdatasync" } else { "fsync" }),
            OpD::Fallocate { offset, len, mode } => format!("fallocate({file}, mode={mode}, offset={offset}, len={len})"),
            OpD::Fadvise { offset, len, advice } => format!("fadvise({file}, offset={offset}, len={len}, advice={advice})"),
            OpD::Ftruncate { len } => format!("ftruncate({file}, {len})"),
            OpD::Statx { mask } => format!("statx(dirfd={}, path=, flags={}, mask={mask}, buf=a10mem)", if k == Kd::Direct { "<direct descriptor>".to_string() } else { fd.to_string() }, libc::AT_EMPTY_PATH),
            OpD::Open { path, flags, mode, nk } => format!("openat(dirfd={}, path={}, flags={}, mode={mode}){}", libc::AT_FDCWD, hex(path), clo(*nk, *flags), newk(*nk)),
            OpD::Mkdir { path } => format!("mkdirat(dirfd={}, path={}, mode={})", libc::AT_FDCWD, hex(path), 0o777),
            OpD::Unlink { path, dir } => format!("unlinkat(dirfd={}, path={}, flags={})", libc::AT_FDCWD, hex(path), if *dir { libc::AT_REMOVEDIR } else { 0 }),
            OpD::Rename { from, to } => format!("renameat(olddirfd={}, old={}, newdirfd={}, new={}, flags=0)", libc::AT_FDCWD, hex(from), libc::AT_FDCWD, hex(to)),
            OpD::Socket { domain, ty, proto, nk } => format!("socket(domain={domain}, type={}, protocol={proto}){}", clo(*nk, *ty), newk(*nk)),
            OpD::Connect { sa } => format!("connect({file}, addr={})", hex(sa)),
            OpD::Bind { sa } => format!("bind({file}, addr={})", hex(sa)),
            OpD::Listen { backlog } => format!("listen({file}, backlog={backlog})"),
            OpD::Accept { cap, flags } => {
                let (a, c) = outaddr(cap);
                format!("accept4({file}, addr={a} cap={c}, flags={}, multishot=false){}", clo(k, *flags), newk(k))
            }
            OpD::MultishotAccept { flags } => format!("accept4({file}, addr=NULL cap=none, flags={}, multishot=true){}", clo(k, *flags), newk(k)),
            OpD::Send { r, off, len, flags, zc } => format!("sendto({file}, buf={} len={len}, flags={}, dest=none, zc={zc})", ub(r, off), flags | MSG_NOSIGNAL),
            OpD::SendTo { r, off, len, sa, flags, zc } => format!("sendto({file}, buf={} len={len}, flags={}, dest={}, zc={zc})", ub(r, off), flags | MSG_NOSIGNAL, dest(sa)),
            OpD::SendMsg { iov, sa, flags, zc } => format!("sendmsg({file}, dest={}, iov={}, control=NULL controllen=0, flags={}, zc={zc})", dest(sa), iovs(iov), flags | MSG_NOSIGNAL),
            OpD::Recv { b, flags } => format!("recv({file}, {}, flags={flags}, multishot=false)", buf(b)),
            OpD::MultishotRecv { g, flags } => format!("recv({file}, group={g}, flags={flags}, multishot=true)"),
            OpD::RecvMsg { iov, cap, flags } => {
                let (a, _) = outaddr(cap);
                format!("recvmsg({file}, name={a} namecap={}, iov={}, control=NULL controllen=0, flags={flags}, select=none)", cap.unwrap_or(0), iovs(iov))
            }
            OpD::RecvFrom { b, cap, flags } => {
                let (a, _) = outaddr(cap);
                let (iov, sel) = match b {
                    BufD::User { r, off, len } => (format!("[R{r}+{off}:{len}]"), "none".to_string()),
                    BufD::Pool { g } => ("[NULL:0]".to_string(), format!("group={g}")),
                };
                format!("recvmsg({file}, name={a} namecap={}, iov={iov}, control=NULL controllen=0, flags={flags}, select={sel})", cap.unwrap_or(0))
            }
            OpD::Shutdown { how } => format!("shutdown({file}, how={how})"),
            OpD::GetSockOpt { level, name, optlen } => format!("getsockopt({file}, level={level}, name={name}, val=a10mem len={optlen})"),
            OpD::SetSockOpt { level, name, value } => format!("setsockopt({file}, level={level}, name={name}, val={})", hex(value)),
            OpD::SockName { peer, cap } => {
                let (a, c) = outaddr(cap);
                format!("{}({file}, addr={a} cap={c})", if *peer { "getpeername" } else { "getsockname" })
            }
            OpD::Pipe { flags, nk } => format!("pipe2(fds=a10mem, flags={}){}", clo(*nk, *flags), newk(*nk)),
            OpD::Waitid { w, options } => {
                let (t, id) = match w.0 {
                    0 => (libc::P_PID, w.1 as i32),
                    1 => (libc::P_PGID, w.1 as i32),
                    _ => (libc::P_ALL, 0),
                };
                format!("waitid(idtype={t}, id={id}, info=a10mem, options={options})")
            }
            OpD::SignalRead => format!("read({file}, buf=a10mem len={}, cur)", std::mem::size_of::<libc::signalfd_siginfo>()),
            OpD::Madvise { r, off, len, advice } => format!("madvise(addr={}, len={len}, advice={advice})", ub(r, off)),
            OpD::PollRing { ring_fd } => format!(
                "poll(fd:{ring_fd}, events={}, multishot=true)",
                (libc::EPOLLIN | libc::EPOLLHUP | libc::EPOLLERR | libc::EPOLLET | libc::EPOLLEXCLUSIVE) as u32
            ),
            OpD::ToDirect => format!("register_files([{fd}], slot=alloc)"),
            OpD::ToFd => format!("install_fd(fixed:{fd}, cloexec=true)"),
            OpD::Cancel => "cancel(user_data)".to_string(),
        }
    }
}

// ---------------------------------------------------------------------------------------------
// Driving futures on the simulated kernel.

type Outv = Result<Vec<i128>, (Option<i32>, std::io::ErrorKind)>;
type Poller = Box<dyn FnMut(&mut Context<'_>) -> Poll<Outv>>;

fn fut_poller<F: Future + 'static>(fut: F, conv: impl Fn(F::Output) -> Outv + 'static) -> Poller {
    let mut f = Box::pin(fut);
    Box::new(move |cx| f.as_mut().poll(cx).map(&conv))
}

fn io_conv<T>(ok: impl Fn(T) -> Vec<i128> + 'static) -> impl Fn(std::io::Result<T>) -> Outv + 'static {
    move |r| match r {
        Ok(v) => Ok(ok(v)),
        Err(e) => Err((e.raw_os_error(), e.kind())),
    }
}

fn unit<T>(_: T) -> Vec<i128> {
    vec![]
}

struct Env {
    ring: Ring,
    sq: SubmissionQueue,
    ring_fd: i32,
}

fn new_env() -> Env {
    simk::install();
    simk::configure(simk::SetupConfig::default());
    let ring = Ring::config().with_direct_descriptors(16).build().expect("ring on the simulated kernel");
    let ring_fd = simk::with(|s| s.fd);
    let sq = ring.sq();
    Env { ring, sq, ring_fd }
}

fn poll_p(p: &mut Poller) -> Poll<Outv> {
    let mut cx = Context::from_waker(Waker::noop());
    p(&mut cx)
}

/// Poll once (the operation queues its SQE), let the kernel consume it, return it.
fn submit(env: &mut Env, p: &mut Poller) -> Result<(abi::Sqe, u64), String> {
    simk::with_fd(env.ring_fd, |s| s.take_log());
    if let Poll::Ready(v) = poll_p(p) {
        return Err(format!("completed without submitting anything: {v:?}"));
    }
    consumed(env)
}

fn consumed(env: &mut Env) -> Result<(abi::Sqe, u64), String> {
    let _ = env.ring.poll(Some(Duration::ZERO));
    let log = simk::with_fd(env.ring_fd, |s| s.take_log()).unwrap_or_default();
    let mut found = None;
    for e in log {
        if let Ev::Consumed { sqe, req: Some(req) } = e {
            found = Some((sqe, req));
        }
    }
    found.ok_or_else(|| "no submission reached the kernel".to_string())
}

fn complete(env: &mut Env, req: u64, res: i32, flags: u32) {
    simk::with_fd(env.ring_fd, |s| s.complete(req, res, flags));
    let _ = env.ring.poll(Some(Duration::ZERO));
}

fn finish(env: &mut Env, p: &mut Poller, req: u64, res: i32) -> Option<Outv> {
    complete(env, req, res, 0);
    match poll_p(p) {
        Poll::Ready(v) => Some(v),
        Poll::Pending => None,
    }
}

thread_local! {
    static GARBAGE: std::cell::RefCell<Vec<Box<dyn FnOnce()>>> = Default::default();
}

/// A `'static` reference that is reclaimed by `collect_garbage` at the end of the case.
fn leak<T: 'static>(x: T) -> &'static T {
    let p = Box::into_raw(Box::new(x));
    GARBAGE.with(|g| g.borrow_mut().push(Box::new(move || drop(unsafe { Box::from_raw(p) }))));
    unsafe { &*p }
}

fn collect_garbage() {
    loop {
        let Some(f) = GARBAGE.with(|g| g.borrow_mut().pop()) else { break };
        f();
    }
}

/// An `AsyncFd` of the wanted kind whose descriptor number / direct index is `n`.
fn make_fd(env: &mut Env, k: Kd, n: i32) -> Result<AsyncFd, String> {
    match k {
        Kd::Regular => {
            simk::add_fake_fd(n);
            Ok(unsafe { AsyncFd::from_raw_fd(n, env.sq.clone()) })
        }
        Kd::Direct => {
            simk::add_fake_fd(900);
            let base = leak(unsafe { AsyncFd::from_raw_fd(900, env.sq.clone()) });
            let cell: std::rc::Rc<std::cell::RefCell<Option<AsyncFd>>> = Default::default();
            let c2 = cell.clone();
            let mut p = fut_poller(base.to_direct_descriptor(), move |r| match r {
                Ok(fd) => {
                    *c2.borrow_mut() = Some(fd);
                    Ok(vec![])
                }
                Err(e) => Err((e.raw_os_error(), e.kind())),
            });
            let (sqe, req) = submit(env, &mut p)?;
            if sqe.opcode != abi::OP_FILES_UPDATE || !readable(sqe.addr, 4) {
                return Err(format!("to_direct_descriptor submitted {sqe:?}"));
            }
            // The kernel writes the allocated index back into the array.
            unsafe { (sqe.addr as usize as *mut i32).write(n) };
            finish(env, &mut p, req, 1).ok_or("to_direct_descriptor did not complete")?.map_err(|e| format!("to_direct_descriptor failed: {e:?}"))?;
            let fd = cell.borrow_mut().take().ok_or("no descriptor returned")?;
            if fd.kind() != Kind::Direct {
                return Err("to_direct_descriptor returned a regular descriptor".into());
            }
            Ok(fd)
        }
    }
}

/// Descriptor number and kind as `Debug` shows them (`fd()` is crate-private).
fn fd_debug(fd: &AsyncFd) -> (i64, Kd) {
    let s = format!("{fd:?}");
    let n = s.split("fd: ").nth(1).and_then(|t| t.split(|c: char| !c.is_ascii_digit() && c != '-').next()).and_then(|t| t.parse().ok()).unwrap_or(-999);
    (n, if fd.kind() == Kind::Direct { Kd::Direct } else { Kd::Regular })
}

fn flag<T: Copy>(v: u32) -> T {
    assert_eq!(std::mem::size_of::<T>(), 4);
    unsafe { std::mem::transmute_copy(&v) }
}

fn subset(r: &mut Rng, bits: &[u32]) -> u32 {
    let mut f = 0;
    for b in bits {
        if r.chance(1, 3) {
            f |= b;
        }
    }
    f
}

const OFFSETS: [u64; 10] = [0, 1, 511, 4096, 1 << 31, 1 << 32, (1 << 63) - 1, 1 << 63, u64::MAX - 1, u64::MAX];

fn gen_offset(r: &mut Rng) -> Option<u64> {
    match r.below(4) {
        0 => None,
        1 | 2 => Some(*r.pick(&OFFSETS)),
        _ => Some(r.next()),
    }
}

fn gen_len(r: &mut Rng) -> usize {
    match r.below(6) {
        0 => 0,
        1 => 1,
        2 => r.range(2, 16) as usize,
        3 => r.range(17, 300) as usize,
        4 => 4096,
        _ => r.range(1, 2000) as usize,
    }
}

/// A buffer to read into: `Vec` with `len` initialised bytes and `cap` capacity.
fn gen_rbuf(r: &mut Rng, regs: &mut Regions) -> (Vec<u8>, BufD) {
    let spare = gen_len(r);
    let filled = if r.chance(1, 2) { 0 } else { r.range(1, 64) as usize };
    let mut v = Vec::with_capacity((filled + spare).max(1));
    v.resize(filled, 0xA5);
    let cap = v.capacity();
    let reg = regs.add(v.as_ptr(), cap);
    (v, BufD::User { r: reg, off: filled, len: cap - filled })
}

enum WBuf {
    V(Vec<u8>),
    St(&'static [u8]),
    Bx(Box<[u8]>),
    Str(String),
    Ar(Arc<[u8]>),
}

/// A buffer to write from, of one of the provided `Buf` types: (buffer, region, offset, len).
fn gen_wbuf(r: &mut Rng, regs: &mut Regions) -> (WBuf, usize, usize, usize) {
    let len = gen_len(r);
    let fill = (r.next() & 0xff) as u8;
    match r.below(5) {
        0 => {
            let mut v = Vec::with_capacity(len.max(1) + r.below(8) as usize);
            v.resize(len, fill);
            let reg = regs.add(v.as_ptr(), v.capacity());
            (WBuf::V(v), reg, 0, len)
        }
        1 => {
            let pre = r.below(40) as usize;
            let whole: &'static [u8] = leak(vec![fill; pre + len + 1].into_boxed_slice());
            let reg = regs.add(whole.as_ptr(), whole.len());
            (WBuf::St(&whole[pre..pre + len]), reg, pre, len)
        }
        2 => {
            let b = vec![fill; len.max(1)].into_boxed_slice();
            let len = b.len();
            let reg = regs.add(b.as_ptr(), len);
            (WBuf::Bx(b), reg, 0, len)
        }
        3 => {
            let mut s = String::with_capacity(len.max(1));
            for _ in 0..len {
                s.push((b'a' + fill % 26) as char);
            }
            let reg = regs.add(s.as_ptr(), s.capacity());
            (WBuf::Str(s), reg, 0, len)
        }
        _ => {
            let a: Arc<[u8]> = Arc::from(vec![fill; len.max(1)].into_boxed_slice());
            let len = a.len();
            let reg = regs.add(a.as_ptr(), len);
            (WBuf::Ar(a), reg, 0, len)
        }
    }
}

macro_rules! with_wbuf {
    ($wb:expr, |$b:ident| $body:expr) => {
        match $wb {
            WBuf::V($b) => $body,
            WBuf::St($b) => $body,
            WBuf::Bx($b) => $body,
            WBuf::Str($b) => $body,
            WBuf::Ar($b) => $body,
        }
    };
}

macro_rules! with_n {
    ($v:expr, |$arr:ident| $body:expr) => {{
        let v: Vec<Vec<u8>> = $v;
        match v.len() {
            1 => { let $arr: [Vec<u8>; 1] = v.try_into().ok().unwrap(); $body }
            2 => { let $arr: [Vec<u8>; 2] = v.try_into().ok().unwrap(); $body }
            3 => { let $arr: [Vec<u8>; 3] = v.try_into().ok().unwrap(); $body }
            4 => { let $arr: [Vec<u8>; 4] = v.try_into().ok().unwrap(); $body }
            5 => { let $arr: [Vec<u8>; 5] = v.try_into().ok().unwrap(); $body }
            6 => { let $arr: [Vec<u8>; 6] = v.try_into().ok().unwrap(); $body }
            7 => { let $arr: [Vec<u8>; 7] = v.try_into().ok().unwrap(); $body }
            _ => { let $arr: [Vec<u8>; 8] = v.try_into().ok().unwrap(); $body }
        }
    }};
}

/// 1..8 buffers to read into.
fn gen_riov(r: &mut Rng, regs: &mut Regions) -> (Vec<Vec<u8>>, IovD) {
    let n = r.range(1, 8) as usize;
    let mut bufs = Vec::new();
    let mut d = Vec::new();
    for _ in 0..n {
        let (v, b) = gen_rbuf(r, regs);
        if let BufD::User { r, off, len } = b {
            d.push((r, off, len));
        }
        bufs.push(v);
    }
    (bufs, d)
}

/// 1..8 buffers to write from.
fn gen_wiov(r: &mut Rng, regs: &mut Regions) -> (Vec<Vec<u8>>, IovD) {
    let n = r.range(1, 8) as usize;
    let mut bufs = Vec::new();
    let mut d = Vec::new();
    for _ in 0..n {
        let len = gen_len(r);
        let mut v = Vec::with_capacity(len.max(1));
        v.resize(len, 0x5A);
        d.push((regs.add(v.as_ptr(), v.capacity()), 0, len));
        bufs.push(v);
    }
    (bufs, d)
}

#[derive(Clone, Debug)]
enum AddrV {
    V4(SocketAddrV4),
    V6(SocketAddrV6),
    Sa(SocketAddr),
    Unix(std::os::unix::net::SocketAddr),
}

fn sockaddr_in(a: &SocketAddrV4) -> Vec<u8> {
    let mut b = vec![2, 0];
    b.extend(a.port().to_be_bytes());
    b.extend(a.ip().octets());
    b.extend([0; 8]);
    b
}

fn sockaddr_in6(a: &SocketAddrV6) -> Vec<u8> {
    let mut b = vec![10, 0];
    b.extend(a.port().to_be_bytes());
    b.extend(a.flowinfo().to_ne_bytes());
    b.extend(a.ip().octets());
    b.extend(a.scope_id().to_ne_bytes());
    b
}

/// The address and the bytes of the `struct sockaddr` the synchronous call would be given.
fn gen_addr(r: &mut Rng) -> (AddrV, Vec<u8>) {
    use std::os::linux::net::SocketAddrExt;
    let port = *r.pick(&[0u16, 1, 80, 0x1234, 0xff00, 65535]);
    let v4 = SocketAddrV4::new(Ipv4Addr::from(r.next() as u32), port);
    let v6 = SocketAddrV6::new(Ipv6Addr::from(((r.next() as u128) << 64) | r.next() as u128), port, r.next() as u32, r.next() as u32);
    match r.below(7) {
        0 => (AddrV::V4(v4), sockaddr_in(&v4)),
        1 => (AddrV::V6(v6), sockaddr_in6(&v6)),
        2 => (AddrV::Sa(SocketAddr::V4(v4)), sockaddr_in(&v4)),
        3 => (AddrV::Sa(SocketAddr::V6(v6)), sockaddr_in6(&v6)),
        4 => {
            let n = r.range(1, 107) as usize;
            let name: Vec<u8> = (0..n).map(|i| b'a' + ((i as u64 + r.below(26)) % 26) as u8).collect();
            let a = std::os::unix::net::SocketAddr::from_pathname(std::ffi::OsStr::from_bytes(&name)).unwrap();
            let mut b = vec![1, 0];
            b.extend(&name);
            b.push(0);
            (AddrV::Unix(a), b)
        }
        5 => {
            let n = r.range(0, 107) as usize;
            let name: Vec<u8> = (0..n).map(|_| (r.next() & 0xff) as u8).collect();
            let a = std::os::unix::net::SocketAddr::from_abstract_name(&name).unwrap();
            let mut b = vec![1, 0, 0];
            b.extend(&name);
            (AddrV::Unix(a), b)
        }
        _ => {
            let a = std::os::unix::net::SocketAddr::from_pathname("").unwrap();
            (AddrV::Unix(a), vec![1, 0])
        }
    }
}

macro_rules! with_addr {
    ($a:expr, |$x:ident| $body:expr) => {
        match $a {
            AddrV::V4($x) => $body,
            AddrV::V6($x) => $body,
            AddrV::Sa($x) => $body,
            AddrV::Unix($x) => $body,
        }
    };
}

/// Address type to receive into: index and the capacity `as_mut_ptr` reports.
macro_rules! with_addr_ty {
    ($i:expr, $A:ident => $body:expr) => {
        match $i {
            0 => { type $A = SocketAddrV4; $body }
            1 => { type $A = SocketAddrV6; $body }
            2 => { type $A = SocketAddr; $body }
            3 => { type $A = std::os::unix::net::SocketAddr; $body }
            _ => { type $A = a10::net::NoAddress; $body }
        }
    };
}

fn addr_cap(i: u64) -> Option<u32> {
    match i {
        0 => Some(16),
        1 | 2 => Some(28),
        3 => Some(110),
        _ => None,
    }
}

// ---------------------------------------------------------------------------------------------
// Building one operation with generated arguments.

const N_OPS: u64 = 42;

struct Built {
    d: OpD,
    p: Poller,
    k: Kd,
    fdn: i32,
}

fn io_err(e: std::io::Error) -> (Option<i32>, std::io::ErrorKind) {
    (e.raw_os_error(), e.kind())
}

macro_rules! iter_poller {
    ($it:expr) => {{
        let mut it = Box::pin($it);
        let p: Poller = Box::new(move |cx| {
            it.as_mut().poll_next(cx).map(|o| match o {
                Some(Ok(_)) => Ok(vec![]),
                Some(Err(e)) => Err(io_err(e)),
                None => Ok(vec![-1]),
            })
        });
        p
    }};
}

fn gen_fdn(r: &mut Rng) -> i32 {
    match r.below(6) {
        0 => *r.pick(&[0, 1, 2, 3, i32::MAX, i32::MAX - 1, 1 << 30, 65535]),
        1 => r.range(3, 1023) as i32,
        _ => (r.next() & 0x7fff_ffff) as i32,
    }
}

fn new_pool(env: &mut Env) -> Result<(a10::io::ReadBufPool, u16), String> {
    let before: Vec<u16> = simk::with_fd(env.ring_fd, |s| s.pbufs.keys().copied().collect()).unwrap_or_default();
    let pool = a10::io::ReadBufPool::new(env.sq.clone(), 2, 64).map_err(|e| format!("ReadBufPool::new: {e}"))?;
    let after: Vec<u16> = simk::with_fd(env.ring_fd, |s| s.pbufs.keys().copied().collect()).unwrap_or_default();
    let g = after.into_iter().find(|g| !before.contains(g)).ok_or("buffer group not registered")?;
    Ok((pool, g))
}

fn path_bytes(r: &mut Rng) -> Vec<u8> {
    let n = match r.below(4) {
        0 => 0,
        1 => 1,
        _ => r.range(2, 200) as usize,
    };
    (0..n).map(|_| 1 + (r.below(255)) as u8).collect()
}

fn pb(b: &[u8]) -> PathBuf {
    PathBuf::from(std::ffi::OsStr::from_bytes(b))
}

fn build_op(which: u64, r: &mut Rng, env: &mut Env, regs: &mut Regions, want: Kd) -> Result<Built, String> {
    use a10::net::{RecvFlag, SendFlag};
    let mut fdn = gen_fdn(r);
    let recv_bits = [libc::MSG_CMSG_CLOEXEC as u32, libc::MSG_ERRQUEUE as u32, libc::MSG_OOB as u32, libc::MSG_PEEK as u32, libc::MSG_WAITALL as u32];
    let send_bits = [libc::MSG_CONFIRM as u32, libc::MSG_DONTROUTE as u32, libc::MSG_EOR as u32, libc::MSG_MORE as u32, libc::MSG_OOB as u32, libc::MSG_FASTOPEN as u32];
    // Operations on an AsyncFd get one of the wanted kind (the conversions fix it).
    let k = match which {
        39 => Kd::Regular,
        40 => Kd::Direct,
        _ => want,
    };
    if k == Kd::Direct {
        // Direct descriptor tables hold at most 2^20 entries (IORING_MAX_FIXED_FILES).
        fdn = if r.chance(1, 8) { (1 << 20) - 1 } else { fdn % (1 << 20) };
    }
    let mut target = |env: &mut Env| -> Result<&'static AsyncFd, String> { Ok(leak(make_fd(env, k, fdn)?)) };
    let sq = env.sq.clone();
    let (d, p): (OpD, Poller) = match which {
        0 => {
            let fd = target(env)?;
            let offset = gen_offset(r);
            if r.chance(1, 5) {
                let (pool, g) = new_pool(env)?;
                let mut f = fd.read(pool.get());
                if let Some(o) = offset {
                    f = f.from(o);
                }
                leak(pool);
                (OpD::Read { b: BufD::Pool { g }, offset: offset.unwrap_or(u64::MAX) }, fut_poller(f, io_conv(unit)))
            } else {
                let (v, b) = gen_rbuf(r, regs);
                let mut f = fd.read(v);
                if let Some(o) = offset {
                    f = f.from(o);
                }
                (OpD::Read { b, offset: offset.unwrap_or(u64::MAX) }, fut_poller(f, io_conv(unit)))
            }
        }
        1 => {
            let fd = target(env)?;
            let offset = gen_offset(r);
            let (bufs, iov) = gen_riov(r, regs);
            let p = with_n!(bufs, |arr| {
                let mut f = fd.read_vectored(arr);
                if let Some(o) = offset {
                    f = f.from(o);
                }
                fut_poller(f, io_conv(unit))
            });
            (OpD::Readv { iov, offset: offset.unwrap_or(u64::MAX) }, p)
        }
        2 => {
            let fd = target(env)?;
            let offset = gen_offset(r);
            let (wb, reg, off, len) = gen_wbuf(r, regs);
            let p = with_wbuf!(wb, |b| {
                let mut f = fd.write(b);
                if let Some(o) = offset {
                    f = f.at(o);
                }
                fut_poller(f, io_conv(|n: usize| vec![n as i128]))
            });
            (OpD::Write { r: reg, off, len, offset: offset.unwrap_or(u64::MAX) }, p)
        }
        3 => {
            let fd = target(env)?;
            let offset = gen_offset(r);
            if r.chance(1, 4) {
                // A tuple of two different buffer types.
                let la = gen_len(r);
                let mut v = Vec::with_capacity(la.max(1));
                v.resize(la, 7u8);
                let ra = regs.add(v.as_ptr(), v.capacity());
                let st: &'static [u8] = leak(vec![9u8; 11].into_boxed_slice());
                let rb = regs.add(st.as_ptr(), st.len());
                let mut f = fd.write_vectored((v, &st[2..9]));
                if let Some(o) = offset {
                    f = f.at(o);
                }
                (OpD::Writev { iov: vec![(ra, 0, la), (rb, 2, 7)], offset: offset.unwrap_or(u64::MAX) }, fut_poller(f, io_conv(|n: usize| vec![n as i128])))
            } else {
                let (bufs, iov) = gen_wiov(r, regs);
                let p = with_n!(bufs, |arr| {
                    let mut f = fd.write_vectored(arr);
                    if let Some(o) = offset {
                        f = f.at(o);
                    }
                    fut_poller(f, io_conv(|n: usize| vec![n as i128]))
                });
                (OpD::Writev { iov, offset: offset.unwrap_or(u64::MAX) }, p)
            }
        }
        4 => {
            let fd = target(env)?;
            let (pool, g) = new_pool(env)?;
            (OpD::MultishotRead { g }, iter_poller!(fd.multishot_read(pool)))
        }
        5 | 6 => {
            let fd = target(env)?;
            let t = r.range(3, 100000) as i32;
            let len = *r.pick(&[0u32, 1, 4096, u32::MAX, 65536]);
            let tfd = unsafe { BorrowedFd::borrow_raw(t) };
            let mut f = if which == 5 { fd.splice_to(tfd, len) } else { fd.splice_from(tfd, len) };
            let (mut oi, mut oo, mut flags) = (u64::MAX, u64::MAX, 0u32);
            if r.chance(1, 2) {
                oi = *r.pick(&OFFSETS);
                f = f.from(oi);
            }
            if r.chance(1, 2) {
                oo = *r.pick(&OFFSETS);
                f = f.at(oo);
            }
            if r.chance(1, 2) {
                flags = subset(r, &[libc::SPLICE_F_MOVE, libc::SPLICE_F_MORE]);
                f = f.flags(flag(flags));
            }
            let d = if which == 5 { OpD::SpliceTo { t, len, oi, oo, flags } } else { OpD::SpliceFrom { t, len, oi, oo, flags } };
            (d, fut_poller(f, io_conv(|n: usize| vec![n as i128])))
        }
        7 => {
            let fd = make_fd(env, k, fdn)?;
            (OpD::Close, fut_poller(fd.close(), io_conv(unit)))
        }
        8 => {
            let fd = target(env)?;
            let data = r.chance(1, 2);
            (OpD::Fsync { data }, fut_poller(if data { fd.sync_data() } else { fd.sync_all() }, io_conv(unit)))
        }
        9 => {
            let fd = target(env)?;
            let offset = *r.pick(&OFFSETS);
            let len = *r.pick(&[0u32, 1, 4096, u32::MAX]);
            let mut f = fd.allocate(offset, len);
            let mut mode = 0;
            if r.chance(2, 3) {
                mode = subset(r, &[libc::FALLOC_FL_KEEP_SIZE as u32, libc::FALLOC_FL_UNSHARE_RANGE as u32, libc::FALLOC_FL_PUNCH_HOLE as u32, libc::FALLOC_FL_COLLAPSE_RANGE as u32, libc::FALLOC_FL_ZERO_RANGE as u32, libc::FALLOC_FL_INSERT_RANGE as u32]);
                f = f.mode(flag(mode));
            }
            (OpD::Fallocate { offset, len, mode }, fut_poller(f, io_conv(unit)))
        }
        10 => {
            let fd = target(env)?;
            let offset = *r.pick(&OFFSETS);
            let len = *r.pick(&[0u32, 1, 4096, u32::MAX]);
            let advice = *r.pick(&[libc::POSIX_FADV_NORMAL, libc::POSIX_FADV_SEQUENTIAL, libc::POSIX_FADV_RANDOM, libc::POSIX_FADV_NOREUSE, libc::POSIX_FADV_WILLNEED, libc::POSIX_FADV_DONTNEED]) as u32;
            (OpD::Fadvise { offset, len, advice }, fut_poller(fd.advise(offset, len, flag(advice)), io_conv(unit)))
        }
        11 => {
            let fd = target(env)?;
            let len = if r.chance(1, 2) { *r.pick(&OFFSETS) } else { r.next() };
            (OpD::Ftruncate { len }, fut_poller(fd.truncate(len), io_conv(unit)))
        }
        12 => {
            let fd = target(env)?;
            let mut f = fd.metadata();
            let mut mask = libc::STATX_TYPE | libc::STATX_MODE | libc::STATX_ATIME | libc::STATX_MTIME | libc::STATX_BTIME | libc::STATX_SIZE | libc::STATX_BLOCKS;
            if r.chance(2, 3) {
                mask = subset(r, &[libc::STATX_TYPE, libc::STATX_SIZE, libc::STATX_BLOCKS, libc::STATX_MODE, libc::STATX_MTIME, libc::STATX_ATIME, libc::STATX_BTIME]);
                f = f.only(flag(mask));
            }
            (OpD::Statx { mask }, fut_poller(f, io_conv(unit)))
        }
        13 => {
            let path = path_bytes(r);
            let mut o = a10::fs::OpenOptions::new();
            let (mut rd, mut wr) = (true, false);
            let mut bits: u32 = 0;
            let mut mode = 0o666u32;
            let mut nk = Kd::Regular;
            // Up to eight builder calls, the three access-mode calls twice as likely as the others
            // (their effect depends on what was called before: write_only().write() stays write-only).
            for _ in 0..r.below(4) {
                match r.below(3) {
                    0 => { o = o.read(); rd = true; }
                    1 => { o = o.write(); wr = true; }
                    _ => { o = o.write_only(); rd = false; wr = true; }
                }
            }
            for _ in 0..r.below(9) {
                match r.below(15) {
                    0 | 12 => { o = o.read(); rd = true; }
                    1 | 13 => { o = o.write(); wr = true; }
                    2 | 14 => { o = o.write_only(); rd = false; wr = true; }
                    3 => { o = o.append(); bits |= libc::O_APPEND as u32; }
                    4 => { o = o.truncate(); bits |= libc::O_TRUNC as u32; }
                    5 => { o = o.create(); bits |= libc::O_CREAT as u32; }
                    6 => { o = o.create_new(); bits |= (libc::O_CREAT | libc::O_EXCL) as u32; }
                    7 => { o = o.data_sync(); bits |= libc::O_DSYNC as u32; }
                    8 => { o = o.sync(); bits |= libc::O_SYNC as u32; }
                    9 => { o = o.direct(); bits |= libc::O_DIRECT as u32; }
                    10 => { mode = *r.pick(&[0u32, 0o600, 0o644, 0o777, 0o7777, u32::MAX]); o = o.mode(mode); }
                    _ => { nk = if r.chance(1, 2) { Kd::Direct } else { Kd::Regular }; o = o.kind(nk.kind()); }
                }
            }
            let acc = match (rd, wr) { (true, false) => libc::O_RDONLY, (true, true) => libc::O_RDWR, _ => libc::O_WRONLY } as u32;
            let temp = r.chance(1, 8);
            let flags = bits | acc | if temp { libc::O_TMPFILE as u32 } else { 0 };
            let f = if temp { o.open_temp_file(sq, pb(&path)) } else { o.open(sq, pb(&path)) };
            (OpD::Open { path, flags, mode, nk }, fut_poller(f, io_conv(unit)))
        }
        14 => {
            let path = path_bytes(r);
            (OpD::Mkdir { path: path.clone() }, fut_poller(a10::fs::create_dir(sq, pb(&path)), io_conv(unit)))
        }
        15 => {
            let path = path_bytes(r);
            let dir = r.chance(1, 2);
            let f = if dir { a10::fs::remove_dir(sq, pb(&path)) } else { a10::fs::remove_file(sq, pb(&path)) };
            (OpD::Unlink { path, dir }, fut_poller(f, io_conv(unit)))
        }
        16 => {
            let (from, to) = (path_bytes(r), path_bytes(r));
            (OpD::Rename { from: from.clone(), to: to.clone() }, fut_poller(a10::fs::rename(sq, pb(&from), pb(&to)), io_conv(unit)))
        }
        17 => {
            let domain = *r.pick(&[libc::AF_INET, libc::AF_INET6, libc::AF_UNIX, libc::AF_UNSPEC, libc::AF_PACKET]);
            let ty = *r.pick(&[libc::SOCK_STREAM, libc::SOCK_DGRAM, libc::SOCK_SEQPACKET, libc::SOCK_RAW]) as u32;
            let proto = if r.chance(1, 2) { None } else { Some(*r.pick(&[libc::IPPROTO_TCP, libc::IPPROTO_UDP, libc::IPPROTO_ICMP, libc::IPPROTO_MPTCP]) as u32) };
            let mut f = a10::net::socket(sq, flag(domain as u32), flag(ty), proto.map(flag));
            let mut nk = Kd::Regular;
            if r.chance(2, 3) {
                nk = if r.chance(1, 2) { Kd::Direct } else { Kd::Regular };
                f = f.kind(nk.kind());
            }
            (OpD::Socket { domain, ty, proto: proto.unwrap_or(0), nk }, fut_poller(f, io_conv(unit)))
        }
        18 | 19 => {
            let fd = target(env)?;
            let (a, sa) = gen_addr(r);
            let p = if which == 18 {
                with_addr!(a, |x| fut_poller(fd.connect(x), io_conv(unit)))
            } else {
                with_addr!(a, |x| fut_poller(fd.bind(x), io_conv(unit)))
            };
            (if which == 18 { OpD::Connect { sa } } else { OpD::Bind { sa } }, p)
        }
        20 => {
            let fd = target(env)?;
            let backlog = *r.pick(&[0u32, 1, 128, 4096, u32::MAX]);
            (OpD::Listen { backlog }, fut_poller(fd.listen(backlog), io_conv(unit)))
        }
        21 => {
            let fd = target(env)?;
            let ai = r.below(5);
            let flags = if r.chance(1, 3) { libc::SOCK_NONBLOCK as u32 } else { 0 };
            let set = r.chance(1, 2) || flags != 0;
            let p = with_addr_ty!(ai, A => {
                let mut f = fd.accept::<A>();
                if set {
                    f = f.flags(flag(flags));
                }
                fut_poller(f, io_conv(unit))
            });
            (OpD::Accept { cap: addr_cap(ai), flags }, p)
        }
        22 => {
            let fd = target(env)?;
            let flags = if r.chance(1, 3) { libc::SOCK_NONBLOCK as u32 } else { 0 };
            let mut it = fd.multishot_accept();
            if flags != 0 || r.chance(1, 2) {
                it = it.flags(flag(flags));
            }
            (OpD::MultishotAccept { flags }, iter_poller!(it))
        }
        23 => {
            let fd = target(env)?;
            let (wb, reg, off, len) = gen_wbuf(r, regs);
            let flags = if r.chance(1, 2) { subset(r, &send_bits) } else { 0 };
            let set = flags != 0 || r.chance(1, 2);
            let zc = r.chance(1, 3);
            let p = with_wbuf!(wb, |b| {
                let mut f = fd.send(b);
                if set {
                    f = f.flags(flag::<SendFlag>(flags));
                }
                if zc {
                    f = f.zc();
                }
                fut_poller(f, io_conv(|n: usize| vec![n as i128]))
            });
            (OpD::Send { r: reg, off, len, flags, zc }, p)
        }
        24 => {
            let fd = target(env)?;
            let (wb, reg, off, len) = gen_wbuf(r, regs);
            let flags = if r.chance(1, 2) { subset(r, &send_bits) } else { 0 };
            let zc = r.chance(1, 3);
            let none = r.chance(1, 6);
            let (a, sa) = gen_addr(r);
            macro_rules! go {
                ($x:expr) => {
                    with_wbuf!(wb, |b| {
                        let mut f = fd.send_to(b, $x);
                        if flags != 0 {
                            f = f.flags(flag::<SendFlag>(flags));
                        }
                        if zc {
                            f = f.zc();
                        }
                        fut_poller(f, io_conv(|n: usize| vec![n as i128]))
                    })
                };
            }
            let p = if none { go!(a10::net::NoAddress) } else { with_addr!(a, |x| go!(x)) };
            (OpD::SendTo { r: reg, off, len, sa: if none { None } else { Some(sa) }, flags, zc }, p)
        }
        25 => {
            let fd = target(env)?;
            let (bufs, iov) = gen_wiov(r, regs);
            let flags = if r.chance(1, 2) { subset(r, &send_bits) } else { 0 };
            let zc = r.chance(1, 3);
            let none = r.chance(1, 2);
            let (a, sa) = gen_addr(r);
            macro_rules! go {
                ($f:expr) => {{
                    let mut f = $f;
                    if flags != 0 {
                        f = f.flags(flag::<SendFlag>(flags));
                    }
                    if zc {
                        f = f.zc();
                    }
                    fut_poller(f, io_conv(|n: usize| vec![n as i128]))
                }};
            }
            let p = with_n!(bufs, |arr| if none { go!(fd.send_vectored(arr)) } else { with_addr!(a, |x| go!(fd.send_to_vectored(arr, x))) });
            (OpD::SendMsg { iov, sa: if none { None } else { Some(sa) }, flags, zc }, p)
        }
        26 => {
            let fd = target(env)?;
            let flags = if r.chance(1, 2) { subset(r, &recv_bits) } else { 0 };
            if r.chance(1, 5) {
                let (pool, g) = new_pool(env)?;
                let mut f = fd.recv(pool.get());
                if flags != 0 {
                    f = f.flags(flag::<RecvFlag>(flags));
                }
                leak(pool);
                (OpD::Recv { b: BufD::Pool { g }, flags }, fut_poller(f, io_conv(unit)))
            } else {
                let (v, b) = gen_rbuf(r, regs);
                let mut f = fd.recv(v);
                if flags != 0 {
                    f = f.flags(flag::<RecvFlag>(flags));
                }
                (OpD::Recv { b, flags }, fut_poller(f, io_conv(unit)))
            }
        }
        27 => {
            let fd = target(env)?;
            let (pool, g) = new_pool(env)?;
            let flags = if r.chance(1, 2) { subset(r, &recv_bits[..4]) } else { 0 };
            let mut it = fd.multishot_recv(pool);
            if flags != 0 {
                it = it.flags(flag::<RecvFlag>(flags));
            }
            (OpD::MultishotRecv { g, flags }, iter_poller!(it))
        }
        28 => {
            let fd = target(env)?;
            let (bufs, iov) = gen_riov(r, regs);
            let flags = if r.chance(1, 2) { subset(r, &recv_bits) } else { 0 };
            let ai = r.below(5);
            let p = with_n!(bufs, |arr| {
                if ai == 4 {
                    let mut f = fd.recv_vectored(arr);
                    if flags != 0 {
                        f = f.flags(flag::<RecvFlag>(flags));
                    }
                    fut_poller(f, io_conv(unit))
                } else {
                    with_addr_ty!(ai, A => {
                        let mut f = fd.recv_from_vectored::<_, A, _>(arr);
                        if flags != 0 {
                            f = f.flags(flag::<RecvFlag>(flags));
                        }
                        fut_poller(f, io_conv(unit))
                    })
                }
            });
            (OpD::RecvMsg { iov, cap: addr_cap(ai), flags }, p)
        }
        29 => {
            let fd = target(env)?;
            let flags = if r.chance(1, 2) { subset(r, &recv_bits) } else { 0 };
            let ai = r.below(5);
            if r.chance(1, 5) {
                let (pool, g) = new_pool(env)?;
                let buf = pool.get();
                leak(pool);
                let p = with_addr_ty!(ai, A => {
                    let mut f = fd.recv_from::<_, A>(buf);
                    if flags != 0 {
                        f = f.flags(flag::<RecvFlag>(flags));
                    }
                    fut_poller(f, io_conv(unit))
                });
                (OpD::RecvFrom { b: BufD::Pool { g }, cap: addr_cap(ai), flags }, p)
            } else {
                let (v, b) = gen_rbuf(r, regs);
                let p = with_addr_ty!(ai, A => {
                    let mut f = fd.recv_from::<_, A>(v);
                    if flags != 0 {
                        f = f.flags(flag::<RecvFlag>(flags));
                    }
                    fut_poller(f, io_conv(unit))
                });
                (OpD::RecvFrom { b, cap: addr_cap(ai), flags }, p)
            }
        }
        30 => {
            let fd = target(env)?;
            let how = r.below(3) as u8;
            let h = [std::net::Shutdown::Read, std::net::Shutdown::Write, std::net::Shutdown::Both][how as usize];
            (OpD::Shutdown { how }, fut_poller(fd.shutdown(h), io_conv(unit)))
        }
        31 => {
            use a10::net::option as o;
            let fd = target(env)?;
            macro_rules! get {
                ($T:ty, $level:expr, $name:expr, $len:expr) => {
                    (OpD::GetSockOpt { level: $level as u32, name: $name as u32, optlen: $len }, fut_poller(fd.socket_option::<$T>(), io_conv(unit)))
                };
            }
            match r.below(12) {
                0 => get!(o::KeepAlive, libc::SOL_SOCKET, libc::SO_KEEPALIVE, 4),
                1 => get!(o::Linger, libc::SOL_SOCKET, libc::SO_LINGER, 8),
                2 => get!(o::Error, libc::SOL_SOCKET, libc::SO_ERROR, 4),
                3 => get!(o::RecvBuf, libc::SOL_SOCKET, libc::SO_RCVBUF, 4),
                4 => get!(o::TcpNoDelay, libc::IPPROTO_TCP, libc::TCP_NODELAY, 4),
                5 => get!(o::Type, libc::SOL_SOCKET, libc::SO_TYPE, 4),
                6 => get!(o::Domain, libc::SOL_SOCKET, libc::SO_DOMAIN, 4),
                7 => get!(o::IncomingCpu, libc::SOL_SOCKET, libc::SO_INCOMING_CPU, 4),
                8 => get!(o::TcpKeepAliveIdle, libc::IPPROTO_TCP, libc::TCP_KEEPIDLE, 4),
                9 => get!(o::ReusePort, libc::SOL_SOCKET, libc::SO_REUSEPORT, 4),
                10 => get!(o::Accept, libc::SOL_SOCKET, libc::SO_ACCEPTCONN, 4),
                _ => get!(o::TcpCork, libc::IPPROTO_TCP, libc::TCP_CORK, 4),
            }
        }
        32 => {
            use a10::net::option as o;
            let fd = target(env)?;
            macro_rules! set {
                ($T:ty, $level:expr, $name:expr, $v:expr, $bytes:expr) => {
                    (OpD::SetSockOpt { level: $level as u32, name: $name as u32, value: $bytes }, fut_poller(fd.set_socket_option::<$T>($v), io_conv(unit)))
                };
            }
            let b = r.chance(1, 2);
            let n = *r.pick(&[0u32, 1, 4096, i32::MAX as u32, u32::MAX]);
            let bb = (b as i32).to_ne_bytes().to_vec();
            let nb = n.to_ne_bytes().to_vec();
            match r.below(7) {
                0 => set!(o::KeepAlive, libc::SOL_SOCKET, libc::SO_KEEPALIVE, b, bb),
                1 => {
                    let l = if b { Some(n) } else { None };
                    let mut bytes = (b as i32).to_ne_bytes().to_vec();
                    bytes.extend((if b { n } else { 0 }).to_ne_bytes());
                    set!(o::Linger, libc::SOL_SOCKET, libc::SO_LINGER, l, bytes)
                }
                2 => set!(o::RecvBuf, libc::SOL_SOCKET, libc::SO_RCVBUF, n, nb),
                3 => set!(o::TcpNoDelay, libc::IPPROTO_TCP, libc::TCP_NODELAY, b, bb),
                4 => set!(o::IncomingCpu, libc::SOL_SOCKET, libc::SO_INCOMING_CPU, n, nb),
                5 => set!(o::ReuseAddress, libc::SOL_SOCKET, libc::SO_REUSEADDR, b, bb),
                _ => set!(o::TcpKeepAliveCount, libc::IPPROTO_TCP, libc::TCP_KEEPCNT, n, nb),
            }
        }
        33 => {
            let fd = target(env)?;
            let peer = r.chance(1, 2);
            let ai = r.below(4);
            let p = with_addr_ty!(ai, A => {
                if peer { fut_poller(fd.peer_addr::<A>(), io_conv(unit)) } else { fut_poller(fd.local_addr::<A>(), io_conv(unit)) }
            });
            (OpD::SockName { peer, cap: addr_cap(ai) }, p)
        }
        34 => {
            let mut f = a10::pipe::pipe(sq);
            let mut nk = Kd::Regular;
            let mut flags = 0;
            if r.chance(2, 3) {
                nk = if r.chance(1, 2) { Kd::Direct } else { Kd::Regular };
                f = f.kind(nk.kind());
            }
            if r.chance(1, 2) {
                flags = libc::O_DIRECT as u32;
                f = f.flags(flag(flags));
            }
            (OpD::Pipe { flags, nk }, fut_poller(f, io_conv(unit)))
        }
        35 => {
            use a10::process::{wait, WaitOn};
            let id = *r.pick(&[0u32, 1, 4242, i32::MAX as u32, 1 << 31, u32::MAX]);
            let (w, won) = match r.below(3) {
                0 => ((0, id), WaitOn::Process(id)),
                1 => ((1, id), WaitOn::Group(id)),
                _ => ((2, 0), WaitOn::All),
            };
            let mut f = wait(sq, won);
            let mut options = 0;
            if r.chance(3, 4) {
                options = subset(r, &[libc::WUNTRACED as u32, libc::WEXITED as u32, libc::WCONTINUED as u32, libc::WNOWAIT as u32]);
                f = f.flags(flag(options));
            }
            (OpD::Waitid { w, options }, fut_poller(f, io_conv(unit)))
        }
        36 => {
            use a10::process::{Signal, Signals};
            let s = Signals::from_signals(sq, [Signal::USER1]).map_err(|e| format!("Signals: {e}"))?;
            let real = format!("{s:?}").split("AsyncFd { fd: ").nth(1).and_then(|t| t.split(',').next().map(|x| x.trim().to_string())).and_then(|x| x.parse::<i32>().ok()).ok_or("no signalfd number")?;
            if k == Kd::Direct {
                let cell: std::rc::Rc<std::cell::RefCell<Option<Signals>>> = Default::default();
                let c2 = cell.clone();
                let mut p = fut_poller(s.to_direct_descriptor(), move |r| match r {
                    Ok(s) => {
                        *c2.borrow_mut() = Some(s);
                        Ok(vec![])
                    }
                    Err(e) => Err(io_err(e)),
                });
                let (sqe, req) = submit(env, &mut p)?;
                if sqe.opcode != abi::OP_FILES_UPDATE || !readable(sqe.addr, 4) {
                    return Err("Signals::to_direct_descriptor did not submit FILES_UPDATE".into());
                }
                unsafe { (sqe.addr as usize as *mut i32).write(fdn) };
                finish(env, &mut p, req, 1).ok_or("conversion did not complete")?.map_err(|e| format!("{e:?}"))?;
                let s = leak(cell.borrow_mut().take().ok_or("no Signals returned")?);
                return Ok(Built { d: OpD::SignalRead, p: fut_poller(s.receive(), io_conv(unit)), k, fdn });
            }
            let s = leak(s);
            return Ok(Built { d: OpD::SignalRead, p: fut_poller(s.receive(), io_conv(unit)), k, fdn: real });
        }
        37 => {
            let cap = 8192usize;
            let mem: &'static [u8] = leak(vec![0u8; cap].into_boxed_slice());
            let reg = regs.add(mem.as_ptr(), cap);
            let off = *r.pick(&[0usize, 1, 4096, 8191]);
            let len = *r.pick(&[0u32, 1, 4096, u32::MAX]);
            let advice = *r.pick(&[libc::MADV_NORMAL, libc::MADV_RANDOM, libc::MADV_SEQUENTIAL, libc::MADV_WILLNEED, libc::MADV_DONTNEED, libc::MADV_FREE, libc::MADV_COLD, libc::MADV_POPULATE_READ]) as u32;
            let addr = unsafe { mem.as_ptr().add(off) }.cast_mut().cast::<()>();
            (OpD::Madvise { r: reg, off, len, advice }, fut_poller(a10::mem::advise(sq, addr, len, flag(advice)), io_conv(unit)))
        }
        38 => {
            // The ring to be polled is another one; the POLL_ADD goes to this environment's ring.
            let other = leak(Ring::config().build().map_err(|e| format!("second ring: {e}"))?);
            let other_fd = simk::with(|s| s.fd);
            (OpD::PollRing { ring_fd: other_fd }, iter_poller!(other.pollable(sq)))
        }
        39 => {
            let fd = target(env)?;
            (OpD::ToDirect, fut_poller(fd.to_direct_descriptor(), io_conv(unit)))
        }
        40 => {
            let fd = target(env)?;
            (OpD::ToFd, fut_poller(fd.to_file_descriptor(), io_conv(unit)))
        }
        _ => {
            // Dropping a running operation submits the cancellation.
            let fd = target(env)?;
            (OpD::Cancel, fut_poller(fd.sync_all(), io_conv(unit)))
        }
    };
    let k = if d.has_target() { k } else { Kd::Regular };
    Ok(Built { d, p, k, fdn })
}

// ---------------------------------------------------------------------------------------------
// Cases.

fn jesc(s: &str) -> String {
    out::jstr(s)
}

fn teardown(env: Env) {
    let ring_fd = env.ring_fd;
    collect_garbage();
    let Env { ring, sq, .. } = env;
    drop(sq);
    let _ = catch_unwind(AssertUnwindSafe(move || drop(ring)));
    simk::retire(ring_fd);
    simk::take_closes();
}

fn fail_case(what: String, tags: Vec<String>) -> Case {
    Case { coq: String::new(), obs: vec![], json: format!("{{\"driver_error\":{}}}", jesc(&what)), oracle: Some(what), known: None, tags, nontrivial: false }
}

fn encode_case(r: &mut Rng, which: u64, want: Kd) -> Case {
    let mut env = new_env();
    let mut regs = Regions::default();
    let built = build_op(which, r, &mut env, &mut regs, want);
    let Built { d, mut p, k, fdn } = match built {
        Ok(b) => b,
        Err(e) => {
            teardown(env);
            return fail_case(format!("operation #{which} ({want:?}) could not be started: {e}"), vec!["driver-error".into()]);
        }
    };
    let mut tags = vec![format!("op:{}", d.name()), format!("kind:{k:?}")];
    let submitted = submit(&mut env, &mut p);
    let (sqe, req) = match submitted {
        Ok(x) => x,
        Err(e) => {
            drop(p);
            teardown(env);
            return fail_case(format!("{} on a {k:?} descriptor: {e}", d.name()), tags);
        }
    };
    let mut cancel_target = None;
    let mut op_sqe = sqe;
    let mut p = Some(p);
    if let OpD::Cancel = d {
        cancel_target = Some(sqe.user_data);
        drop(p.take());
        let _ = env.ring.poll(Some(Duration::ZERO));
        let log = simk::with_fd(env.ring_fd, |s| s.take_log()).unwrap_or_default();
        match log.iter().find_map(|e| if let Ev::Consumed { sqe, .. } = e { (sqe.opcode == abi::OP_ASYNC_CANCEL).then_some(*sqe) } else { None }) {
            Some(c) => op_sqe = c,
            None => {
                teardown(env);
                return fail_case("dropping a running operation did not submit a cancellation".into(), tags);
            }
        }
    }
    let mut obs = render_sqe(&regs, &op_sqe, cancel_target);
    obs.extend(render_mem(&regs, &op_sqe));
    let want_call = d.expected(k, fdn);
    let got_call = abi_call(&regs, &op_sqe);
    let mut oracle = match &got_call {
        Ok(c) if *c == want_call => None,
        Ok(c) => Some(format!("{} on a {k:?} descriptor {fdn}: the submission means `{c}`, the call documented is `{want_call}`", d.name())),
        Err(e) => Some(format!("{} on a {k:?} descriptor {fdn}: the kernel refuses the submission ({e}), the call documented is `{want_call}`", d.name())),
    };
    if let OpD::Cancel = d {
        if op_sqe.addr != cancel_target.unwrap() || op_sqe.flags & abi::SQE_CQE_SKIP_SUCCESS == 0 {
            oracle.get_or_insert("the cancellation does not name the dropped operation".into());
        }
    }
    // The two known classes, each pinned to the submission the known defect produces; any other
    // deviation on the same operation is a violation of its own.
    //   H20: IOSQE_FIXED_FILE lands on the (regular) output, the (direct) input is named as a
    //        process descriptor and never gets SPLICE_F_FD_IN_FIXED;
    //   H24: IORING_OP_STATX carries IOSQE_FIXED_FILE, which the kernel refuses.
    let known = match (&d, k, oracle.is_some()) {
        (OpD::SpliceTo { t, len, oi, oo, flags }, Kd::Direct, true) => {
            let h20 = format!("splice(in=fd:{fdn} {}, out=fixed:{t} {}, len={len}, flags={flags})", f_pos(*oi), f_pos(*oo));
            (got_call.as_ref() == Ok(&h20)).then(|| "splice-to-direct".to_string())
        }
        (OpD::Statx { .. }, Kd::Direct, true) => {
            let h24 = "statx: IOSQE_FIXED_FILE on a request whose fd is not a file (-EBADF/-EINVAL)";
            (got_call.as_ref().err().map(|e| e.as_str()) == Some(h24)).then(|| "metadata-direct".to_string())
        }
        _ => None,
    };
    // Let the operation finish (with an error nobody interprets) so that everything is released.
    if let Some(p) = p.as_mut() {
        match finish(&mut env, p, req, -libc::EBADF) {
            Some(Err((Some(e), _))) if e == libc::EBADF => {}
            other => {
                oracle.get_or_insert(format!("{}: completion with -EBADF was reported as {other:?}", d.name()));
            }
        }
    }
    drop(p);
    teardown(env);
    tags.push(format!("buffers:{}", regs.v.len().min(9)));
    let coq = format!("CEncode ({}) {} {}%N", d.coq(), k.coq(), fdn);
    let json = format!(
        "{{\"op\":{},\"kind\":\"{k:?}\",\"fd\":{fdn},\"args\":{},\"documented_call\":{},\"submitted\":{}}}",
        jesc(d.name()),
        jesc(&d.coq()),
        jesc(&want_call),
        jesc(&match got_call { Ok(c) => c, Err(e) => format!("refused: {e}") })
    );
    Case { coq, obs, json, oracle, known, tags, nontrivial: true }
}

fn one_case(i: usize, r: &mut Rng, thorough: bool) -> Case {
    if thorough && i % 25 == 24 {
        return real_case(r);
    }
    let sel = i % 20;
    let round = i / 20;
    match sel {
        0..=13 => {
            let idx = (round * 14 + sel) as u64;
            encode_case(r, idx % N_OPS, if (idx / N_OPS) % 2 == 0 { Kd::Regular } else { Kd::Direct })
        }
        14 | 15 => statx_case(r),
        16 => wait_case(r),
        17 => if round % 2 == 0 { opt_case(r) } else { fromraw_case(r) },
        _ => result_case(r),
    }
}

fn check_constants() {
    // The Linux constants the model states (Model/Encode.v) against libc.
    assert_eq!(libc::O_CLOEXEC as u32, O_CLOEXEC);
    assert_eq!(libc::SOCK_CLOEXEC as u32, O_CLOEXEC);
    assert_eq!(libc::AT_FDCWD, -100);
    assert_eq!(libc::AT_EMPTY_PATH, 4096);
    assert_eq!(libc::AT_REMOVEDIR, 512);
    assert_eq!(libc::MSG_NOSIGNAL as u32, MSG_NOSIGNAL);
    assert_eq!((libc::P_ALL, libc::P_PID, libc::P_PGID), (0, 1, 2));
    assert_eq!((libc::SHUT_RD, libc::SHUT_WR, libc::SHUT_RDWR), (0, 1, 2));
    assert_eq!((libc::EPOLLIN, libc::EPOLLERR, libc::EPOLLHUP), (1, 8, 16));
    assert_eq!(libc::EPOLLEXCLUSIVE as u32, 1 << 28);
    assert_eq!(libc::EPOLLET as u32, 1 << 31);
    assert_eq!(std::mem::size_of::<libc::signalfd_siginfo>(), 128);
    assert_eq!(std::mem::size_of::<libc::statx>(), 256);
    assert_eq!(std::mem::size_of::<libc::siginfo_t>(), 128);
    assert_eq!(std::mem::size_of::<libc::msghdr>(), 56);
    assert_eq!((libc::EINTR, libc::EINVAL, libc::ENOSYS, libc::EOPNOTSUPP, libc::ECANCELED), (4, 22, 38, 95, 125));
    assert_eq!((libc::CLD_EXITED, libc::CLD_KILLED, libc::CLD_DUMPED, libc::CLD_TRAPPED, libc::CLD_STOPPED, libc::CLD_CONTINUED), (1, 2, 3, 4, 5, 6));
    assert_eq!((libc::S_IFMT, libc::S_IFSOCK, libc::S_IFLNK, libc::S_IFREG), (0o170000, 0o140000, 0o120000, 0o100000));
    assert_eq!((libc::S_IFBLK, libc::S_IFDIR, libc::S_IFCHR, libc::S_IFIFO), (0o060000, 0o040000, 0o020000, 0o010000));
}

pub fn run(args: &Args) -> i32 {
    check_constants();
    unsafe {
        let mut lim = libc::rlimit { rlim_cur: 0, rlim_max: 0 };
        if libc::getrlimit(libc::RLIMIT_NOFILE, &mut lim) == 0 {
            lim.rlim_cur = lim.rlim_max.min(65536);
            libc::setrlimit(libc::RLIMIT_NOFILE, &lim);
        }
    }
    if let Ok(i) = std::env::var("C13_ONE") {
        // Debugging aid: one case, in this process, with the default panic hook.
        let i: usize = i.parse().unwrap();
        let mut r = Rng::new(args.seed).fork(i as u64);
        let c = one_case(i, &mut r, args.thorough);
        println!("{}\n{:?}\n{}\noracle={:?} known={:?}", c.coq, c.obs, c.json, c.oracle, c.known);
        return 0;
    }
    if std::env::var("C13_LOUD").is_err() {
        std::panic::set_hook(Box::new(|_| {}));
    }
    let n = args.n.unwrap_or(if args.thorough { 12_000 } else { 1_600 });
    let root = Rng::new(args.seed);
    let cases = out::run_forked(&args.out, n, 12, &|i| {
        let mut r = root.fork(i as u64);
        one_case(i, &mut r, args.thorough)
    });
    let _ = std::panic::take_hook();
    let spec = Spec { prop: "C13", imports: &["Model.Encode", "Model.ResultDecode"], run_fn: "run_c13case_fixed", case_ty: "c13case", shard: 400 };
    out::write_all(&args.out, &spec, &cases, &[]);
    0
}

// ---------------------------------------------------------------------------------------------
// Result decoders: scripted kernel output through the out-parameters.

fn systime_ns(t: std::time::SystemTime) -> i128 {
    match t.duration_since(std::time::UNIX_EPOCH) {
        Ok(d) => d.as_secs() as i128 * 1_000_000_000 + d.subsec_nanos() as i128,
        Err(e) => -(e.duration().as_secs() as i128 * 1_000_000_000 + e.duration().subsec_nanos() as i128),
    }
}

fn gen_time(r: &mut Rng) -> (i64, u32) {
    let sec = match r.below(8) {
        0 => *r.pick(&[0i64, 1, 1_700_000_000, i64::MAX, -1, -86_400, -2_208_988_800, i64::MIN, i64::MIN + 1]),
        1..=4 => (r.next() >> 30) as i64,
        5 => *r.pick(&[0i64, 1, 1_700_000_000, i64::MAX]),
        6 => -((r.next() >> 30) as i64),
        _ => r.next() as i64,
    };
    let nsec = match r.below(3) {
        0 => *r.pick(&[0u32, 1, 999_999_999, 500_000_000]),
        _ => r.below(1_000_000_000) as u32,
    };
    (sec, nsec)
}

fn statx_case(r: &mut Rng) -> Case {
    let mut env = new_env();
    let fd = match make_fd(&mut env, Kd::Regular, 7) {
        Ok(fd) => leak(fd),
        Err(e) => {
            teardown(env);
            return fail_case(e, vec!["driver-error".into()]);
        }
    };
    let ty = *r.pick(&[libc::S_IFDIR, libc::S_IFREG, libc::S_IFLNK, libc::S_IFSOCK, libc::S_IFBLK, libc::S_IFCHR, libc::S_IFIFO, 0, 0o050000, 0o170000]);
    let mode = (ty | (r.next() as u32 & 0o7777)) as u16;
    let size = if r.chance(1, 2) { *r.pick(&[0u64, 1, 4096, u32::MAX as u64 + 1, u64::MAX]) } else { r.next() };
    let blksize = *r.pick(&[0u32, 512, 4096, u32::MAX]);
    let mask = subset(r, &[libc::STATX_TYPE, libc::STATX_SIZE, libc::STATX_BLOCKS, libc::STATX_MODE, libc::STATX_MTIME, libc::STATX_ATIME, libc::STATX_BTIME]);
    let times = [gen_time(r), gen_time(r), gen_time(r)];
    let cell: std::rc::Rc<std::cell::RefCell<Option<a10::fs::Metadata>>> = Default::default();
    let c2 = cell.clone();
    let mut p = fut_poller(fd.metadata(), move |res| match res {
        Ok(m) => {
            *c2.borrow_mut() = Some(m);
            Ok(vec![])
        }
        Err(e) => Err(io_err(e)),
    });
    let tags = vec!["decoder:metadata".to_string(), format!("pre1970:{}", times.iter().any(|t| t.0 < 0))];
    let step = submit(&mut env, &mut p).and_then(|(sqe, req)| {
        if sqe.opcode != abi::OP_STATX || !readable(sqe.off, 256) {
            return Err("metadata() did not submit a STATX with a buffer".to_string());
        }
        let mut st: libc::statx = unsafe { std::mem::zeroed() };
        st.stx_mask = mask;
        st.stx_mode = mode;
        st.stx_size = size;
        st.stx_blksize = blksize;
        st.stx_atime.tv_sec = times[0].0;
        st.stx_atime.tv_nsec = times[0].1;
        st.stx_mtime.tv_sec = times[1].0;
        st.stx_mtime.tv_nsec = times[1].1;
        st.stx_btime.tv_sec = times[2].0;
        st.stx_btime.tv_nsec = times[2].1;
        unsafe { (sqe.off as usize as *mut libc::statx).write(st) };
        match finish(&mut env, &mut p, req, 0) {
            Some(Ok(_)) => Ok(()),
            other => Err(format!("metadata() completed with {other:?}")),
        }
    });
    drop(p);
    let Some(m) = cell.borrow_mut().take().filter(|_| step.is_ok()) else {
        teardown(env);
        return fail_case(step.err().unwrap_or_else(|| "no metadata".into()), tags);
    };
    let ft = m.file_type();
    let pm = m.permissions();
    let mut obs: Vec<i128> = [ft.is_dir(), ft.is_file(), ft.is_symlink(), ft.is_socket(), ft.is_block_device(), ft.is_character_device(), ft.is_named_pipe()]
        .iter()
        .map(|b| *b as i128)
        .collect();
    obs.extend(
        [pm.owner_can_read(), pm.owner_can_write(), pm.owner_can_execute(), pm.group_can_read(), pm.group_can_write(), pm.group_can_execute(), pm.others_can_read(), pm.others_can_write(), pm.others_can_execute()]
            .iter()
            .map(|b| *b as i128),
    );
    let filled: u32 = unsafe { std::mem::transmute_copy(&m.filled()) };
    obs.extend([m.len() as i128, m.block_size() as i128, filled as i128]);
    let mut oracle: Option<String> = None;
    let mut known: Option<String> = None;
    // Independent statement: the S_ISxxx macros, the permission bits, the timespec convention.
    let m16 = mode as u32;
    let want_ft = [libc::S_IFDIR, libc::S_IFREG, libc::S_IFLNK, libc::S_IFSOCK, libc::S_IFBLK, libc::S_IFCHR, libc::S_IFIFO].map(|t| ((m16 & libc::S_IFMT) == t) as i128);
    let want_pm = [libc::S_IRUSR, libc::S_IWUSR, libc::S_IXUSR, libc::S_IRGRP, libc::S_IWGRP, libc::S_IXGRP, libc::S_IROTH, libc::S_IWOTH, libc::S_IXOTH].map(|b| (m16 & b != 0) as i128);
    if obs[..7] != want_ft || obs[7..16] != want_pm || obs[16] != size as i128 || obs[17] != blksize as i128 || obs[18] != mask as i128 {
        oracle = Some(format!("metadata accessors disagree with the statx fields (mode {mode:o}, size {size}, blksize {blksize}, mask {mask})"));
    }
    let names = ["accessed", "modified", "created"];
    let mut bad: Vec<(usize, i64, u32, Option<i128>)> = Vec::new();
    for (i, (sec, nsec)) in times.iter().enumerate() {
        let got = catch_unwind(AssertUnwindSafe(|| match i {
            0 => m.accessed(),
            1 => m.modified(),
            _ => m.created(),
        }));
        let want = *sec as i128 * 1_000_000_000 + *nsec as i128;
        match got {
            Ok(t) => {
                let ns = systime_ns(t);
                obs.extend([1, ns]);
                if ns != want {
                    bad.push((i, *sec, *nsec, Some(ns)));
                }
            }
            Err(_) => {
                obs.extend([0, 0]);
                bad.push((i, *sec, *nsec, None));
            }
        }
    }
    if oracle.is_none() {
        if let Some((i, sec, nsec, got)) = bad.first() {
            let want = *sec as i128 * 1_000_000_000 + *nsec as i128;
            oracle = Some(match got {
                Some(ns) => format!("{}() is {ns} ns after the epoch, the timestamp (tv_sec {sec}, tv_nsec {nsec}) means {want} ns", names[*i]),
                None => format!("{}() panics for the timestamp (tv_sec {sec}, tv_nsec {nsec}), which means {want} ns after the epoch", names[*i]),
            });
            if bad.iter().all(|b| b.1 < 0) {
                known = Some("timestamp-before-1970".into());
            }
        }
    }
    drop(m);
    teardown(env);
    let t = |x: (i64, u32)| format!("({}, {}%Z)", cz(x.0), x.1);
    let coq = format!(
        "CStatx {{| stx_mask := {mask}%N; stx_mode := {mode}%N; stx_size := {size}%N; stx_blksize := {blksize}%N; stx_atime := {}; stx_mtime := {}; stx_btime := {} |}}",
        t(times[0]),
        t(times[1]),
        t(times[2])
    );
    let json = format!("{{\"statx\":{{\"mode\":{mode},\"size\":{size},\"blksize\":{blksize},\"mask\":{mask},\"atime\":[{},{}],\"mtime\":[{},{}],\"btime\":[{},{}]}}}}", times[0].0, times[0].1, times[1].0, times[1].1, times[2].0, times[2].1);
    Case { coq, obs, json, oracle, known, tags, nontrivial: true }
}

fn wait_case(r: &mut Rng) -> Case {
    use std::os::unix::process::ExitStatusExt;
    let mut env = new_env();
    let code = if r.chance(1, 12) { 0 } else { r.range(1, 6) as i32 };
    let status: i32 = match code {
        0 => 0,
        1 => match r.below(3) {
            0 => *r.pick(&[0, 1, 3, 126, 127, 128, 255]),
            _ => r.below(256) as i32,
        },
        _ => match r.below(3) {
            0 => *r.pick(&[1, 2, 9, 11, 15, 18, 19, 64]),
            _ => r.range(1, 64) as i32,
        },
    };
    let pid = *r.pick(&[1i32, 4242, i32::MAX]);
    let uid = *r.pick(&[0u32, 1000, u32::MAX]);
    let signo = libc::SIGCHLD;
    let cell: std::rc::Rc<std::cell::RefCell<Option<a10::process::WaitInfo>>> = Default::default();
    let c2 = cell.clone();
    let mut p = fut_poller(a10::process::wait(env.sq.clone(), a10::process::WaitOn::All).flags(flag(libc::WEXITED as u32)), move |res| match res {
        Ok(w) => {
            *c2.borrow_mut() = Some(w);
            Ok(vec![])
        }
        Err(e) => Err(io_err(e)),
    });
    let tags = vec!["decoder:waitinfo".to_string(), format!("si_code:{code}")];
    let step = submit(&mut env, &mut p).and_then(|(sqe, req)| {
        if sqe.opcode != abi::OP_WAITID || !readable(sqe.off, 128) {
            return Err("wait() did not submit a WAITID with a buffer".to_string());
        }
        let mut b = [0u8; 128];
        b[0..4].copy_from_slice(&signo.to_ne_bytes());
        b[8..12].copy_from_slice(&code.to_ne_bytes());
        b[16..20].copy_from_slice(&pid.to_ne_bytes());
        b[20..24].copy_from_slice(&uid.to_ne_bytes());
        b[24..28].copy_from_slice(&status.to_ne_bytes());
        unsafe { (sqe.off as usize as *mut [u8; 128]).write(b) };
        match finish(&mut env, &mut p, req, 0) {
            Some(Ok(_)) => Ok(()),
            other => Err(format!("wait() completed with {other:?}")),
        }
    });
    drop(p);
    let Some(w) = cell.borrow_mut().take().filter(|_| step.is_ok()) else {
        teardown(env);
        return fail_case(step.err().unwrap_or_else(|| "no wait info".into()), tags);
    };
    let st = w.status();
    let opt = |o: Option<i32>| o.map(|x| x as i128).unwrap_or(-1);
    let view = |s: &std::process::ExitStatus| vec![opt(s.code()), opt(s.signal()), s.core_dumped() as i128, opt(s.stopped_signal()), s.continued() as i128];
    let sig: i32 = unsafe { std::mem::transmute_copy(&w.signal()) };
    let cd: i32 = unsafe { std::mem::transmute_copy(&w.code()) };
    let mut obs = vec![w.pid() as i128, w.real_user_id() as i128, sig as i128, cd as i128];
    obs.extend(view(&st));
    // Independent statement: the status word wait(2) delivers for the same event, read by std.
    let word = match code {
        libc::CLD_EXITED => Some((status & 0xff) << 8),
        libc::CLD_KILLED => Some(status),
        libc::CLD_DUMPED => Some(status | 0x80),
        libc::CLD_STOPPED | libc::CLD_TRAPPED => Some((status << 8) | 0x7f),
        libc::CLD_CONTINUED => Some(0xffff),
        _ => None,
    };
    let mut oracle = None;
    let mut known = None;
    if obs[..4] != [pid as i128, uid as i128, signo as i128, code as i128] {
        oracle = Some("pid/uid/signal/code accessors disagree with the siginfo fields".to_string());
    } else if let Some(wd) = word {
        let want = std::process::ExitStatus::from_raw(wd);
        if view(&want) != view(&st) {
            oracle = Some(format!("si_code {code}, si_status {status}: status() reads as {st:?} (code/signal/core/stopped/continued {:?}), wait(2) would report {want:?} ({:?})", view(&st), view(&want)));
            if !((code == libc::CLD_EXITED && status == 0) || code == libc::CLD_KILLED) {
                known = Some("waitinfo-status-word".into());
            }
        }
    }
    drop(w);
    teardown(env);
    let coq = format!("CWait {} {} {} {} {}", cz(signo as i64), cz(code as i64), cz(status as i64), cz(pid as i64), cz(uid as i64));
    let json = format!("{{\"siginfo\":{{\"si_signo\":{signo},\"si_code\":{code},\"si_status\":{status},\"si_pid\":{pid},\"si_uid\":{uid}}}}}");
    Case { coq, obs, json, oracle, known, tags, nontrivial: true }
}

fn opt_case(r: &mut Rng) -> Case {
    use a10::net::option as o;
    let mut env = new_env();
    let fd = match make_fd(&mut env, if r.chance(1, 2) { Kd::Regular } else { Kd::Direct }, 9) {
        Ok(fd) => leak(fd),
        Err(e) => {
            teardown(env);
            return fail_case(e, vec!["driver-error".into()]);
        }
    };
    let class = r.below(5);
    let v: i32 = match r.below(3) {
        0 => *r.pick(&[0, 1, 2, -1, i32::MAX, i32::MIN, 111]),
        1 => r.below(100) as i32,
        _ => r.next() as i32,
    };
    let v2: i32 = *r.pick(&[0, 1, 30, -1, i32::MAX]);
    let size = if class == 3 { 8u32 } else { 4 };
    let len = if r.chance(1, 8) { *r.pick(&[0u32, 2, 4, 8, 16]) } else { size };
    let opt_u32 = |o: Option<u32>| match o {
        Some(x) => vec![1, x as i128],
        None => vec![0],
    };
    let mut p: Poller = match class {
        0 => fut_poller(fd.socket_option::<o::KeepAlive>(), io_conv(|b: bool| vec![b as i128])),
        1 => fut_poller(fd.socket_option::<o::RecvBuf>(), io_conv(|x: u32| vec![x as i128])),
        2 => fut_poller(fd.socket_option::<o::Error>(), io_conv(|e: Option<std::io::Error>| match e {
            Some(e) => vec![1, e.raw_os_error().unwrap_or(0) as i128],
            None => vec![0],
        })),
        3 => fut_poller(fd.socket_option::<o::Linger>(), io_conv(opt_u32)),
        _ => fut_poller(fd.socket_option::<o::IncomingCpu>(), io_conv(opt_u32)),
    };
    let tags = vec![format!("decoder:option{class}"), format!("len_ok:{}", len == size)];
    let res = submit(&mut env, &mut p).and_then(|(sqe, req)| {
        if sqe.opcode != abi::OP_URING_CMD || !readable(sqe.addr3, size as usize) {
            return Err("socket_option() did not submit a URING_CMD with a value buffer".to_string());
        }
        let mut b = v.to_ne_bytes().to_vec();
        b.extend(v2.to_ne_bytes());
        unsafe { std::ptr::copy_nonoverlapping(b.as_ptr(), sqe.addr3 as usize as *mut u8, size as usize) };
        complete(&mut env, req, len as i32, 0);
        Ok(catch_unwind(AssertUnwindSafe(|| poll_p(&mut p))))
    });
    let (obs, mut oracle): (Vec<i128>, Option<String>) = match res {
        Err(e) => {
            drop(p);
            teardown(env);
            return fail_case(e, tags);
        }
        Ok(Err(_)) => (vec![0], None),
        Ok(Ok(Poll::Ready(Ok(val)))) => {
            let mut o = vec![1];
            o.extend(val);
            (o, None)
        }
        Ok(Ok(other)) => (vec![-1], Some(format!("socket_option completed with {other:?}"))),
    };
    // getsockopt(2): boolean options are "non-zero = set"; checked for the values Linux produces.
    if len == size && oracle.is_none() {
        let want: Option<Vec<i128>> = match class {
            0 if v >= 0 => Some(vec![1, (v != 0) as i128]),
            1 => Some(vec![1, v as u32 as i128]),
            2 => Some(if v == 0 { vec![1, 0] } else { vec![1, 1, v as i128] }),
            3 if v >= 0 => Some(if v == 0 { vec![1, 0] } else { vec![1, 1, v2 as u32 as i128] }),
            4 => Some(if v < 0 { vec![1, 0] } else { vec![1, 1, v as i128] }),
            _ => None,
        };
        if let Some(w) = want {
            if w != obs {
                oracle = Some(format!("option class {class}, value {v}/{v2}: decoded as {obs:?}, getsockopt(2) means {w:?}"));
            }
        }
    }
    std::mem::forget(p); // a panicking decoder leaves the operation in an undefined state
    teardown(env);
    let cls = ["OcBool", "OcU32", "OcError", "OcLinger", "OcIncomingCpu"][class as usize];
    let coq = format!("COpt {cls} {} {} {len}%N", cz(v as i64), cz(v2 as i64));
    let json = format!("{{\"option_class\":\"{cls}\",\"value\":{v},\"value2\":{v2},\"reported_len\":{len}}}");
    Case { coq, obs, json, oracle, known: None, tags, nontrivial: true }
}

fn fromraw_case(r: &mut Rng) -> Case {
    let mut env = new_env();
    let k = if r.chance(1, 2) { Kd::Regular } else { Kd::Direct };
    let n = match r.below(3) {
        0 => *r.pick(&[0i32, 1, 3, 1023, (1 << 20) - 1]),
        _ => (r.next() % (1 << 20)) as i32,
    };
    simk::add_fake_fd(n);
    let cell: std::rc::Rc<std::cell::RefCell<Option<AsyncFd>>> = Default::default();
    let c2 = cell.clone();
    let mut p = fut_poller(a10::net::socket(env.sq.clone(), flag(libc::AF_INET as u32), flag(libc::SOCK_STREAM as u32), None).kind(k.kind()), move |res| match res {
        Ok(fd) => {
            *c2.borrow_mut() = Some(fd);
            Ok(vec![])
        }
        Err(e) => Err(io_err(e)),
    });
    let tags = vec!["decoder:new-descriptor".to_string(), format!("kind:{k:?}")];
    let step = submit(&mut env, &mut p).and_then(|(_, req)| match finish(&mut env, &mut p, req, n) {
        Some(Ok(_)) => Ok(()),
        other => Err(format!("socket() completed with {other:?}")),
    });
    drop(p);
    let Some(fd) = cell.borrow_mut().take().filter(|_| step.is_ok()) else {
        teardown(env);
        return fail_case(step.err().unwrap_or_else(|| "no descriptor".into()), tags);
    };
    let (num, kd) = fd_debug(&fd);
    let obs = vec![num as i128, (kd == Kd::Direct) as i128];
    let oracle = if num != n as i64 || kd != k { Some(format!("socket().kind({k:?}) completed with {n}: the descriptor returned is {num} of kind {kd:?}")) } else { None };
    drop(fd);
    teardown(env);
    let coq = format!("CFromRaw {} {}", k.coq(), cz(n as i64));
    let json = format!("{{\"new_descriptor\":{{\"kind\":\"{k:?}\",\"result\":{n}}}}}");
    Case { coq, obs, json, oracle, known: None, tags, nontrivial: true }
}

// ---------------------------------------------------------------------------------------------
// Result words and fallbacks.

#[derive(Clone, Debug)]
enum Fb {
    Default,
    Pipe { flags: u32, nk: Kd },
    SockName,
    GetSockOpt,
    SetSockOpt,
    ToDirect,
    ToFd,
}

fn outcome_obs(v: &Option<Outv>) -> Option<Vec<i128>> {
    match v {
        Some(Ok(x)) => Some(vec![0, x.first().copied().unwrap_or(0)]),
        Some(Err((Some(e), _))) => Some(vec![1, *e as i128]),
        Some(Err((None, std::io::ErrorKind::Unsupported))) => Some(vec![2, 0]),
        Some(Err(_)) => Some(vec![-1, 0]),
        None => None,
    }
}

/// A real TCP socket of this process: bound to the loopback, TCP_NODELAY as given.
fn real_socket(nodelay: bool) -> (i32, u16) {
    unsafe {
        let s = libc::socket(libc::AF_INET, libc::SOCK_STREAM | libc::SOCK_CLOEXEC, 0);
        assert!(s >= 0);
        let one: i32 = nodelay as i32;
        libc::setsockopt(s, libc::IPPROTO_TCP, libc::TCP_NODELAY, (&one as *const i32).cast(), 4);
        let mut a: libc::sockaddr_in = std::mem::zeroed();
        a.sin_family = libc::AF_INET as u16;
        a.sin_addr.s_addr = u32::from_ne_bytes([127, 0, 0, 1]);
        assert_eq!(libc::bind(s, (&a as *const libc::sockaddr_in).cast(), 16), 0);
        let mut len = 16u32;
        libc::getsockname(s, (&mut a as *mut libc::sockaddr_in).cast(), &mut len);
        (s, u16::from_be(a.sin_port))
    }
}

fn result_case(r: &mut Rng) -> Case {
    let mut env = new_env();
    let fb = match r.below(10) {
        0..=3 => Fb::Default,
        4 => Fb::Pipe { flags: if r.chance(1, 2) { libc::O_DIRECT as u32 } else { 0 }, nk: if r.chance(1, 2) { Kd::Direct } else { Kd::Regular } },
        5 => Fb::SockName,
        6 => Fb::GetSockOpt,
        7 => Fb::SetSockOpt,
        8 => Fb::ToDirect,
        _ => Fb::ToFd,
    };
    let k = match fb {
        Fb::ToDirect | Fb::Pipe { .. } => Kd::Regular,
        Fb::ToFd => Kd::Direct,
        _ => if r.chance(1, 2) { Kd::Regular } else { Kd::Direct },
    };
    let errs = [-1, -2, -5, -9, -11, -22, -4, -125, -95, -38, -32, -28, -6, -24];
    let res: i32 = match fb {
        Fb::Default | Fb::ToDirect | Fb::ToFd | Fb::Pipe { .. } => match r.below(3) {
            0 => match fb {
                Fb::Default => *r.pick(&[0, 1, 4096, i32::MAX]),
                Fb::ToDirect => 1,
                Fb::ToFd => 77,
                _ => 0,
            },
            1 => *r.pick(&[-22, -4, -125, -95]),
            _ => *r.pick(&errs),
        },
        _ => *r.pick(&[-95, -95, -38, -22, -9, -4, -125, -11]),
    };
    let mut tags = vec![format!("result:{}", format!("{fb:?}").split(|c: char| !c.is_alphanumeric()).next().unwrap_or("")), format!("kind:{k:?}"), format!("res:{}", if res >= 0 { "ok".to_string() } else { res.to_string() })];
    // The descriptor: a real socket's number for the socket fallbacks (so that a call on the
    // process's descriptor of that number is observable), a fake one otherwise.
    let needs_real = matches!(fb, Fb::SockName | Fb::GetSockOpt | Fb::SetSockOpt);
    let (fdn, port) = if needs_real { real_socket(matches!(fb, Fb::GetSockOpt)) } else { (r.range(3, 5000) as i32, 0) };
    let made = if needs_real && k == Kd::Regular { Ok(unsafe { AsyncFd::from_raw_fd(fdn, env.sq.clone()) }) } else { make_fd(&mut env, k, fdn) };
    let fd: &'static AsyncFd = match made {
        Ok(fd) => Box::leak(Box::new(fd)), // never dropped: the number may be a real descriptor
        Err(e) => {
            teardown(env);
            return fail_case(e, tags);
        }
    };
    let pipe_fds: std::rc::Rc<std::cell::RefCell<Vec<(i32, Kd)>>> = Default::default();
    let new_fd: std::rc::Rc<std::cell::RefCell<Option<(i64, Kd)>>> = Default::default();
    let mut p: Poller = match &fb {
        Fb::Default => fut_poller(fd.write(vec![1u8; 16]), io_conv(|n: usize| vec![n as i128])),
        Fb::Pipe { flags, nk } => {
            let c = pipe_fds.clone();
            let mut f = a10::pipe::pipe(env.sq.clone()).kind(nk.kind());
            if *flags != 0 {
                f = f.flags(flag(*flags));
            }
            fut_poller(f, move |res| match res {
                Ok(fds) => {
                    for f in fds {
                        let (n, kd) = fd_debug(&f);
                        c.borrow_mut().push((n as i32, kd));
                        std::mem::forget(f);
                    }
                    Ok(vec![0])
                }
                Err(e) => Err(io_err(e)),
            })
        }
        Fb::SockName => fut_poller(fd.local_addr::<SocketAddrV4>(), io_conv(|a: SocketAddrV4| vec![a.port() as i128])),
        Fb::GetSockOpt => fut_poller(fd.socket_option::<a10::net::option::TcpNoDelay>(), io_conv(|b: bool| vec![b as i128])),
        Fb::SetSockOpt => fut_poller(fd.set_socket_option::<a10::net::option::TcpNoDelay>(true), io_conv(unit)),
        Fb::ToDirect => {
            let c = new_fd.clone();
            fut_poller(fd.to_direct_descriptor(), move |res| match res {
                Ok(f) => {
                    *c.borrow_mut() = Some(fd_debug(&f));
                    // One descriptor was registered (the slot number is checked separately).
                    Ok(vec![1])
                }
                Err(e) => Err(io_err(e)),
            })
        }
        Fb::ToFd => {
            let c = new_fd.clone();
            simk::add_fake_fd(77);
            fut_poller(fd.to_file_descriptor(), move |res| match res {
                Ok(f) => {
                    *c.borrow_mut() = Some(fd_debug(&f));
                    Ok(vec![fd_debug(&f).0 as i128])
                }
                Err(e) => Err(io_err(e)),
            })
        }
    };
    let first = submit(&mut env, &mut p);
    let (sqe, req) = match first {
        Ok(x) => x,
        Err(e) => {
            drop(p);
            teardown(env);
            return fail_case(e, tags);
        }
    };
    if let (Fb::ToDirect, true) = (&fb, res >= 0) {
        if readable(sqe.addr, 4) {
            unsafe { (sqe.addr as usize as *mut i32).write(5) };
        }
    }
    if let (Fb::Pipe { .. }, true) = (&fb, res >= 0) {
        if readable(sqe.addr, 8) {
            simk::add_fake_fd(700);
            simk::add_fake_fd(701);
            unsafe { (sqe.addr as usize as *mut [i32; 2]).write([700, 701]) };
        }
    }
    let out = finish(&mut env, &mut p, req, res);
    let mut oracle: Option<String> = None;
    let mut known: Option<String> = None;
    let mut obs = match outcome_obs(&out) {
        Some(o) => o,
        None => {
            // Still pending: the operation must have been submitted again, unchanged.
            match consumed(&mut env) {
                Ok((again, req2)) => {
                    let same = again.opcode == sqe.opcode && again.fd == sqe.fd && again.flags == sqe.flags && again.len == sqe.len && again.op_flags == sqe.op_flags && again.off == sqe.off && again.file_index == sqe.file_index;
                    if !same {
                        oracle = Some(format!("the restarted submission {again:?} differs from the first {sqe:?}"));
                    }
                    let _ = finish(&mut env, &mut p, req2, -libc::EBADF);
                    vec![3, 0]
                }
                Err(_) => {
                    oracle = Some(format!("result {res}: the operation neither completed nor was submitted again"));
                    vec![-2, 0]
                }
            }
        }
    };
    // Did a synchronous fallback run on the process's descriptor `fdn`?
    let mut fell_back = false;
    match &fb {
        Fb::GetSockOpt => fell_back = out == Some(Ok(vec![1])),
        Fb::SockName => fell_back = out == Some(Ok(vec![port as i128])),
        Fb::SetSockOpt => {
            let mut v: i32 = 0;
            let mut l = 4u32;
            unsafe { libc::getsockopt(fdn, libc::IPPROTO_TCP, libc::TCP_NODELAY, (&mut v as *mut i32).cast(), &mut l) };
            fell_back = matches!(out, Some(Ok(_))) && v != 0;
        }
        Fb::Pipe { flags, .. } => {
            let fds = pipe_fds.borrow().clone();
            if res < 0 && fds.len() == 2 {
                fell_back = true;
                let mut got = 0u32;
                for (n, kd) in &fds {
                    let fdfl = unsafe { libc::fcntl(*n, libc::F_GETFD) };
                    let stfl = unsafe { libc::fcntl(*n, libc::F_GETFL) };
                    if *kd != Kd::Regular || fdfl < 0 {
                        oracle = Some(format!("pipe fallback returned {fds:?}, not two open regular descriptors"));
                    }
                    if fdfl & libc::FD_CLOEXEC != 0 {
                        got |= O_CLOEXEC;
                    }
                    got |= stfl as u32 & libc::O_DIRECT as u32;
                    unsafe { libc::close(*n) };
                }
                obs = vec![4, 2, got as i128];
                if got != flags | O_CLOEXEC && oracle.is_none() {
                    oracle = Some(format!("pipe2 fallback: descriptors have flags {got:#x}, asked for {:#x} | O_CLOEXEC", flags));
                }
            }
        }
        _ => {}
    }
    if fell_back && !matches!(fb, Fb::Pipe { .. }) {
        obs = vec![4, 0, fdn as i128];
        if k == Kd::Direct {
            oracle.get_or_insert(format!("{fb:?} on direct descriptor {fdn}, completed with {res}: the fallback made the synchronous call on the process's descriptor number {fdn} (an unrelated socket) and returned its answer"));
            known = Some("fallback-direct-as-fd".into());
        }
    }
    // Independent statement of the result mapping.
    if oracle.is_none() {
        let want: Option<Vec<i128>> = if fell_back {
            None
        } else if res >= 0 {
            Some(vec![0, match fb { Fb::Pipe { .. } => 0, Fb::SockName | Fb::GetSockOpt | Fb::SetSockOpt => obs[1], _ => res as i128 }])
        } else if res == -libc::EINTR || res == -libc::ECANCELED {
            Some(vec![3, 0])
        } else {
            Some(vec![1, -res as i128])
        };
        if let Some(w) = want {
            if w != obs {
                let einval_default = res == -libc::EINVAL && matches!(fb, Fb::Default) && obs == vec![2, 0];
                oracle = Some(format!("{fb:?} ({k:?}) completed with {res}: reported as {obs:?} (0 ok, 1 errno, 2 'unsupported' without errno, 3 restarted), the call's outcome is {w:?}"));
                if einval_default {
                    known = Some("einval-masked".into());
                }
            }
        }
    }
    if let Some((n, kd)) = *new_fd.borrow() {
        let want = if matches!(fb, Fb::ToDirect) { (5, Kd::Direct) } else { (77, Kd::Regular) };
        if (n, kd) != want {
            oracle.get_or_insert(format!("conversion returned descriptor {n} of kind {kd:?}, expected {want:?}"));
        }
    }
    tags.push(format!("fell_back:{fell_back}"));
    drop(p);
    if needs_real {
        unsafe { libc::close(fdn) };
    }
    teardown(env);
    let fbc = match &fb {
        Fb::Default => "FbDefault".to_string(),
        Fb::Pipe { flags, .. } => format!("(FbPipe {flags}%N)"),
        Fb::SockName => "(FbSockName false (Some 16%N))".to_string(),
        Fb::GetSockOpt => format!("(FbGetSockOpt {}%N {}%N 4%N)", libc::IPPROTO_TCP, libc::TCP_NODELAY),
        Fb::SetSockOpt => format!("(FbSetSockOpt {}%N {}%N [1%N; 0%N; 0%N; 0%N])", libc::IPPROTO_TCP, libc::TCP_NODELAY),
        Fb::ToDirect => "FbToDirect".to_string(),
        Fb::ToFd => "FbToFd".to_string(),
    };
    let coq = format!("CResult {fbc} {} {fdn}%N {}", k.coq(), cz(res as i64));
    let json = format!("{{\"result\":{{\"operation\":{},\"kind\":\"{k:?}\",\"fd\":{fdn},\"res\":{res}}}}}", jesc(&format!("{fb:?}")));
    Case { coq, obs, json, oracle, known, tags, nontrivial: true }
}

// ---------------------------------------------------------------------------------------------
// Thorough tier: the same operations on the real kernel against libc on identical fixtures.

fn block_on<F: Future>(ring: &mut Ring, fut: F) -> Option<F::Output> {
    let mut fut = std::pin::pin!(fut);
    let mut cx = Context::from_waker(Waker::noop());
    for _ in 0..400 {
        if let Poll::Ready(v) = fut.as_mut().poll(&mut cx) {
            return Some(v);
        }
        let _ = ring.poll(Some(Duration::from_millis(20)));
    }
    None
}

fn errno_of<T>(r: &std::io::Result<T>) -> Option<Option<i32>> {
    r.as_ref().err().map(|e| e.raw_os_error())
}

struct RealOut {
    oracle: Option<String>,
    known: Option<String>,
}

impl RealOut {
    fn fail(&mut self, what: String, known: Option<&str>) {
        if self.oracle.is_none() {
            self.oracle = Some(what);
            self.known = known.map(|s| s.to_string());
        }
    }
}

/// A regular descriptor of this process for the same open file as `fd`.
fn twin_fd(ring: &mut Ring, fd: &AsyncFd) -> Result<i32, String> {
    use std::os::fd::AsRawFd;
    match fd.as_fd() {
        Some(b) => Ok(unsafe { libc::dup(b.as_raw_fd()) }),
        None => {
            let t = block_on(ring, fd.to_file_descriptor()).ok_or("to_file_descriptor hangs")?.map_err(|e| format!("to_file_descriptor: {e}"))?;
            let n = unsafe { libc::dup(t.as_fd().ok_or("not a regular descriptor")?.as_raw_fd()) };
            Ok(n)
        }
    }
}

fn real_rw(r: &mut Rng, ring: &mut Ring, k: Kd, dir: &std::path::Path, out: &mut RealOut) -> Result<(), String> {
    use std::os::unix::fs::FileExt;
    let init: Vec<u8> = (0..r.below(6000)).map(|_| r.next() as u8).collect();
    let (pa, pb_) = (dir.join("a"), dir.join("b"));
    std::fs::write(&pa, &init).map_err(|e| e.to_string())?;
    std::fs::write(&pb_, &init).map_err(|e| e.to_string())?;
    let fa = block_on(ring, a10::fs::OpenOptions::new().read().write().kind(k.kind()).open(ring.sq(), pa.clone())).ok_or("open hangs")?.map_err(|e| format!("open: {e}"))?;
    if (fa.kind() == Kind::Direct) != (k == Kd::Direct) {
        out.fail(format!("open().kind({k:?}) returned a {:?} descriptor", fa.kind()), None);
    }
    let fb = std::fs::OpenOptions::new().read(true).write(true).open(&pb_).map_err(|e| e.to_string())?;
    let offs = [None, Some(0u64), Some(1), Some(100), Some(4096), Some(70_000), Some(1 << 20), Some(1 << 63)];
    for step in 0..r.range(1, 6) {
        let off = *r.pick(&offs);
        let len = *r.pick(&[0usize, 1, 17, 4096, 9000]);
        if r.chance(1, 2) {
            let data: Vec<u8> = (0..len).map(|_| r.next() as u8).collect();
            let mut f = fa.write(data.clone());
            if let Some(o) = off {
                f = f.at(o);
            }
            let got = block_on(ring, f).ok_or("write hangs")?;
            let want = match off {
                Some(o) => fb.write_at(&data, o),
                None => std::io::Write::write(&mut &fb, &data),
            };
            compare_io(out, &format!("step {step}: write {len} bytes at {off:?} ({k:?})"), got.map(|n| n as i128), want.map(|n| n as i128));
        } else {
            let mut f = fa.read(Vec::with_capacity(len.max(1)));
            if let Some(o) = off {
                f = f.from(o);
            }
            let got = block_on(ring, f).ok_or("read hangs")?;
            let mut buf = vec![0u8; len.max(1)];
            let want = match off {
                Some(o) => fb.read_at(&mut buf, o),
                None => std::io::Read::read(&mut &fb, &mut buf),
            };
            let what = format!("step {step}: read {} bytes from {off:?} ({k:?})", len.max(1));
            match (&got, &want) {
                (Ok(g), Ok(n)) if g[..] != buf[..*n] => out.fail(format!("{what}: a10 read {:?}.., pread read {:?}..", &g[..g.len().min(8)], &buf[..(*n).min(8)]), None),
                _ => compare_io(out, &what, got.map(|g| g.len() as i128), want.map(|n| n as i128)),
            }
        }
    }
    if r.chance(1, 2) {
        let len = *r.pick(&[0u64, 10, 5000, 1 << 63]);
        let got = block_on(ring, fa.truncate(len)).ok_or("truncate hangs")?;
        let want = fb.set_len(len);
        compare_io(out, &format!("truncate({len}) ({k:?})"), got.map(|_| 0), want.map(|_| 0));
    }
    let _ = block_on(ring, fa.sync_all());
    let (ca, cb) = (std::fs::read(&pa).map_err(|e| e.to_string())?, std::fs::read(&pb_).map_err(|e| e.to_string())?);
    if ca != cb {
        out.fail(format!("file contents differ after the same sequence of operations ({} vs {} bytes, {k:?})", ca.len(), cb.len()), None);
    }
    Ok(())
}

fn compare_io(out: &mut RealOut, what: &str, got: std::io::Result<i128>, want: std::io::Result<i128>) {
    match (&got, &want) {
        (Ok(a), Ok(b)) if a == b => {}
        (Err(a), Err(b)) if a.raw_os_error() == b.raw_os_error() => {}
        (Err(a), Err(b)) if a.raw_os_error().is_none() && b.raw_os_error() == Some(libc::EINVAL) => out.fail(format!("{what}: a10 reports {a:?}, the call fails with EINVAL"), Some("einval-masked")),
        _ => out.fail(format!("{what}: a10 {got:?}, libc {want:?}"), None),
    }
}

fn real_statx(r: &mut Rng, ring: &mut Ring, k: Kd, dir: &std::path::Path, out: &mut RealOut) -> Result<(), String> {
    use std::os::unix::fs::PermissionsExt;
    let which = r.below(4);
    let path = match which {
        0 => {
            let p = dir.join("f");
            std::fs::write(&p, vec![1u8; r.below(10_000) as usize]).map_err(|e| e.to_string())?;
            std::fs::set_permissions(&p, std::fs::Permissions::from_mode(0o400 | (r.next() as u32 & 0o377))).map_err(|e| e.to_string())?;
            p
        }
        1 => dir.to_path_buf(),
        2 => PathBuf::from("/dev/null"),
        _ => {
            let p = dir.join("fifo");
            let c = std::ffi::CString::new(p.as_os_str().as_bytes()).unwrap();
            unsafe { libc::mkfifo(c.as_ptr(), 0o644) };
            p
        }
    };
    let old = which == 0 && r.chance(1, 3);
    if old {
        let c = std::ffi::CString::new(path.as_os_str().as_bytes()).unwrap();
        let ts = [libc::timespec { tv_sec: 1_000_000, tv_nsec: 5 }, libc::timespec { tv_sec: -86_400, tv_nsec: 250_000_000 }];
        unsafe { libc::utimensat(libc::AT_FDCWD, c.as_ptr(), ts.as_ptr(), 0) };
    }
    let mut o = a10::fs::OpenOptions::new().kind(k.kind());
    if which == 3 {
        o = o.read().write();
    }
    let fa = block_on(ring, o.open(ring.sq(), path.clone())).ok_or("open hangs")?.map_err(|e| format!("open {path:?}: {e}"))?;
    let c = std::ffi::CString::new(path.as_os_str().as_bytes()).unwrap();
    let fb = unsafe { libc::open(c.as_ptr(), if which == 3 { libc::O_RDWR } else { libc::O_RDONLY } | libc::O_CLOEXEC) };
    let mask = libc::STATX_TYPE | libc::STATX_MODE | libc::STATX_ATIME | libc::STATX_MTIME | libc::STATX_BTIME | libc::STATX_SIZE | libc::STATX_BLOCKS;
    let mut st: libc::statx = unsafe { std::mem::zeroed() };
    let rc = unsafe { libc::statx(fb, c"".as_ptr(), libc::AT_EMPTY_PATH, mask, &mut st) };
    unsafe { libc::close(fb) };
    let got = block_on(ring, fa.metadata()).ok_or("metadata hangs")?;
    match got {
        Err(e) => {
            if rc == 0 {
                let kn = if k == Kd::Direct && e.raw_os_error() == Some(libc::EBADF) { Some("metadata-direct") } else { None };
                out.fail(format!("metadata() on a {k:?} descriptor of {path:?}: {e:?}, statx(fd, \"\", AT_EMPTY_PATH) succeeds"), kn);
            }
        }
        Ok(m) => {
            let ft = m.file_type();
            let ty = st.stx_mode as u32 & libc::S_IFMT;
            let flags = [ft.is_dir(), ft.is_file(), ft.is_symlink(), ft.is_socket(), ft.is_block_device(), ft.is_character_device(), ft.is_named_pipe()];
            let want = [libc::S_IFDIR, libc::S_IFREG, libc::S_IFLNK, libc::S_IFSOCK, libc::S_IFBLK, libc::S_IFCHR, libc::S_IFIFO].map(|t| t == ty);
            let pm = m.permissions();
            let pgot = [pm.owner_can_read(), pm.owner_can_write(), pm.owner_can_execute(), pm.group_can_read(), pm.group_can_write(), pm.group_can_execute(), pm.others_can_read(), pm.others_can_write(), pm.others_can_execute()];
            let pwant = [0o400, 0o200, 0o100, 0o040, 0o020, 0o010, 0o004, 0o002, 0o001].map(|b| st.stx_mode as u32 & b != 0);
            if rc != 0 {
                out.fail("libc::statx failed where a10 succeeded".into(), None);
            } else if flags != want || pgot != pwant || m.len() != st.stx_size || m.block_size() != st.stx_blksize {
                out.fail(format!("metadata of {path:?} ({k:?}): type {flags:?}/{want:?}, permissions {pgot:?}/{pwant:?}, len {}/{}, block size {}/{}", m.len(), st.stx_size, m.block_size(), st.stx_blksize), None);
            } else {
                let t = catch_unwind(AssertUnwindSafe(|| systime_ns(m.modified())));
                let want = st.stx_mtime.tv_sec as i128 * 1_000_000_000 + st.stx_mtime.tv_nsec as i128;
                match t {
                    Ok(ns) if ns == want => {}
                    Ok(ns) => out.fail(format!("modified() = {ns} ns, statx says {want} ns"), if want < 0 { Some("timestamp-before-1970") } else { None }),
                    Err(_) => out.fail(format!("modified() panics for a file last modified {want} ns after the epoch"), if want < 0 { Some("timestamp-before-1970") } else { None }),
                }
            }
        }
    }
    Ok(())
}

fn real_sock(r: &mut Rng, ring: &mut Ring, k: Kd, out: &mut RealOut) -> Result<(), String> {
    use a10::net::option as o;
    let sock = block_on(ring, a10::net::socket(ring.sq(), flag(libc::AF_INET as u32), flag(libc::SOCK_STREAM as u32), None).kind(k.kind())).ok_or("socket hangs")?.map_err(|e| format!("socket: {e}"))?;
    if (sock.kind() == Kind::Direct) != (k == Kd::Direct) {
        out.fail(format!("socket().kind({k:?}) returned a {:?} descriptor", sock.kind()), None);
    }
    let twin = twin_fd(ring, &sock)?;
    let lget = |level: i32, name: i32| -> i32 {
        let mut v: i32 = -7;
        let mut l = 4u32;
        unsafe { libc::getsockopt(twin, level, name, (&mut v as *mut i32).cast(), &mut l) };
        v
    };
    let on = r.chance(1, 2);
    let n = *r.pick(&[4096u32, 20_000, 100_000]);
    // SOL_SOCKET level: handled by io_uring.
    let s = block_on(ring, sock.set_socket_option::<o::KeepAlive>(on)).ok_or("set hangs")?;
    if s.is_err() || (lget(libc::SOL_SOCKET, libc::SO_KEEPALIVE) != 0) != on {
        out.fail(format!("set_socket_option::<KeepAlive>({on}) ({k:?}): {s:?}, getsockopt says {}", lget(libc::SOL_SOCKET, libc::SO_KEEPALIVE)), None);
    }
    let s = block_on(ring, sock.set_socket_option::<o::RecvBuf>(n)).ok_or("set hangs")?;
    let g = block_on(ring, sock.socket_option::<o::RecvBuf>()).ok_or("get hangs")?;
    if s.is_err() || g.as_ref().ok().copied() != Some(lget(libc::SOL_SOCKET, libc::SO_RCVBUF) as u32) {
        out.fail(format!("RecvBuf ({k:?}): set {s:?}, get {g:?}, getsockopt says {}", lget(libc::SOL_SOCKET, libc::SO_RCVBUF)), None);
    }
    let g = block_on(ring, sock.socket_option::<o::Type>()).ok_or("get hangs")?;
    let ty: Option<u32> = g.as_ref().ok().map(|t| unsafe { std::mem::transmute_copy(t) });
    if ty != Some(libc::SOCK_STREAM as u32) {
        out.fail(format!("socket_option::<Type>() ({k:?}): {ty:?}"), None);
    }
    // TCP level: io_uring refuses, a10 falls back to the synchronous call.
    let s = block_on(ring, sock.set_socket_option::<o::TcpNoDelay>(on)).ok_or("set hangs")?;
    let g = block_on(ring, sock.socket_option::<o::TcpNoDelay>()).ok_or("get hangs")?;
    let want = lget(libc::IPPROTO_TCP, libc::TCP_NODELAY) != 0;
    if s.is_err() || g.as_ref().ok().copied() != Some(on) || want != on {
        // A direct descriptor has no synchronous equivalent: since the repair of H21 it keeps the
        // kernel's EOPNOTSUPP (known finding H27); anything else (an answer from an unrelated
        // descriptor, H21) is a violation.
        // (Linux 6.18 implements setsockopt at the TCP level in io_uring but not getsockopt: the
        // set succeeds and must have taken effect, the get keeps EOPNOTSUPP.)
        let unsupported = |e: Option<Option<i32>>| e == Some(Some(libc::EOPNOTSUPP));
        let set_fine = (s.is_ok() && want == on) || unsupported(errno_of(&s));
        let get_fine = g.as_ref().ok().copied() == Some(want) || unsupported(errno_of(&g));
        let honest = k == Kd::Direct && set_fine && get_fine && (s.is_err() || g.is_err());
        out.fail(format!("TcpNoDelay({on}) on a {k:?} descriptor: set {s:?}, get {g:?}, the socket itself says {want}"), if honest { Some("direct-no-sync-equivalent") } else { None });
    }
    // Names.
    let addr = SocketAddrV4::new(Ipv4Addr::LOCALHOST, 0);
    let b = block_on(ring, sock.bind(addr)).ok_or("bind hangs")?;
    let mut sa: libc::sockaddr_in = unsafe { std::mem::zeroed() };
    let mut l = 16u32;
    unsafe { libc::getsockname(twin, (&mut sa as *mut libc::sockaddr_in).cast(), &mut l) };
    let want = SocketAddrV4::new(Ipv4Addr::from(sa.sin_addr.s_addr.to_ne_bytes()), u16::from_be(sa.sin_port));
    // On a direct descriptor the fallback may read an unrelated descriptor's name, whose length
    // trips a debug assertion in the address decoder.
    let g = match catch_unwind(AssertUnwindSafe(|| block_on(ring, sock.local_addr::<SocketAddrV4>()))) {
        Ok(g) => g.ok_or("local_addr hangs")?,
        Err(_) => Err(std::io::Error::other("local_addr panicked (address of an unrelated descriptor)")),
    };
    if b.is_err() || g.as_ref().ok() != Some(&want) || want.port() == 0 {
        let honest = k == Kd::Direct && b.is_ok() && want.port() != 0 && errno_of(&g) == Some(Some(libc::EOPNOTSUPP));
        out.fail(format!("bind + local_addr on a {k:?} descriptor: bind {b:?}, local_addr {g:?}, getsockname says {want}"), if honest { Some("direct-no-sync-equivalent") } else { None });
    }
    unsafe { libc::close(twin) };
    let _ = errno_of(&b);
    Ok(())
}

fn real_case(r: &mut Rng) -> Case {
    a10::verif::uninstall();
    let k = if r.chance(1, 2) { Kd::Regular } else { Kd::Direct };
    let which = r.below(3);
    let name = ["rw", "statx", "socket"][which as usize];
    let tags = vec![format!("real:{name}"), format!("kind:{k:?}")];
    let mut out = RealOut { oracle: None, known: None };
    let dir = std::env::temp_dir().join(format!("c13-{}-{}", std::process::id(), r.next()));
    let _ = std::fs::create_dir_all(&dir);
    let res = match Ring::config().with_direct_descriptors(64).build() {
        Err(e) => Err(format!("real ring: {e}")),
        Ok(mut ring) => {
            let r2 = match which {
                0 => real_rw(r, &mut ring, k, &dir, &mut out),
                1 => real_statx(r, &mut ring, k, &dir, &mut out),
                _ => real_sock(r, &mut ring, k, &mut out),
            };
            drop(ring);
            r2
        }
    };
    let _ = std::fs::remove_dir_all(&dir);
    if let Err(e) = res {
        out.fail(format!("real-kernel {name} case ({k:?}) could not run: {e}"), None);
    }
    Case { coq: String::new(), obs: vec![], json: format!("{{\"real_kernel\":\"{name}\",\"kind\":\"{k:?}\"}}"), oracle: out.oracle, known: out.known, tags, nontrivial: false }
}

//! C11 — SubmissionQueue::wake never loses a wake-up.
//!
//! One poller thread calling `Ring::poll(None)` (no timeout: a lost wake-up blocks forever) and
//! k waker threads calling `SubmissionQueue::wake`, run under the baton scheduler on the
//! simulated kernel; the executed interleaving is replayed on Model/Wake.v.

use std::fmt::Write as _;
use std::sync::{Arc, Mutex};

use crate::out::{self, Case, Spec};
use crate::rng::Rng;
use crate::simk::{self, Ev};
use crate::{sched, Args};

pub fn one_case(r: &mut Rng, silent: &Arc<Mutex<Option<String>>>, debug: bool) -> Case {
    let n_wakers = r.range(1, 3) as usize;
    let wakes_each: Vec<usize> = (0..n_wakers).map(|_| r.range(1, 2) as usize).collect();
    let polls = r.range(1, 3) as usize;
    let mode = r.below(3); // 0 default, 1 single issuer, 2 kernel thread flag
    let preempt = *r.pick(&[5u64, 15, 30, 50]);
    let prefix: Vec<usize> = (0..200).map(|_| if r.below(100) < preempt { 1 + r.below(3) as usize } else { 0 }).collect();

    simk::configure(simk::SetupConfig { sq_start: r.next() as u32, cq_start: r.next() as u32, ..Default::default() });
    let cap: u32 = *r.pick(&[2, 2, 8]);
    let prefill: u32 = *r.pick(&[0, 0, cap - 1, cap, cap]);
    let cfg = a10::Ring::config().with_submission_queue_size(cap);
    let cfg = match mode {
        1 => cfg.single_issuer(),
        2 => cfg.with_kernel_thread(),
        _ => cfg,
    };
    let mut ring = cfg.build().expect("ring on the simulated kernel");
    let ring_fd = simk::with(|s| s.fd);
    let sq = ring.sq();
    // Operations queued before the race (never submitted by anybody but enter, never completing):
    // they make the submission queue (nearly) full when wake() wants to queue its message.
    static DATA: &[u8] = b"x";
    let mut held = Vec::new();
    for k in 0..prefill {
        let fd = Box::leak(Box::new(std::mem::ManuallyDrop::new(unsafe { a10::AsyncFd::from_raw_fd(1_000_000 + k as i32, sq.clone()) })));
        let mut f: std::pin::Pin<Box<dyn std::future::Future<Output = std::io::Result<usize>> + Send>> = Box::pin(fd.write(DATA));
        let w = crate::util::WakeLog::default().waker(0);
        let _ = crate::util::poll_once(f.as_mut(), &w);
        held.push(f);
    }
    let total_wakes: usize = wakes_each.iter().sum();
    let returned = Arc::new(Mutex::new(0usize));
    let mut threads: Vec<Box<dyn FnOnce() + Send>> = Vec::new();
    {
        let returned = returned.clone();
        threads.push(Box::new(move || {
            for _ in 0..polls {
                let _ = ring.poll(None);
                *returned.lock().unwrap() += 1;
            }
            // Keep the ring alive until the end of the run.
            std::mem::forget(ring);
        }));
    }
    for k in wakes_each.iter().copied() {
        let sq = sq.clone();
        threads.push(Box::new(move || {
            for _ in 0..k {
                sq.wake();
            }
        }));
    }
    let _ = simk::with(|s| s.take_log());
    let out = sched::run(threads, &prefix);
    if debug {
        println!("mode {mode} wakers {n_wakers} wakes {:?} polls {polls}", wakes_each);
        for (t, p) in &out.exec {
            print!("T{t}@{p} ");
        }
        println!("\nstuck={} panicked={:?} returned={}", out.stuck, out.panicked, returned.lock().unwrap());
        for e in simk::with(|s| s.take_log()) {
            match e {
                Ev::Enter { .. } | Ev::Blocked { .. } | Ev::Posted { .. } | Ev::Consumed { .. } | Ev::Register { .. } => println!("  {e:?}"),
                _ => {}
            }
        }
    }
    let _ = total_wakes;
    // ---- observations: the executed interleaving, then the end state -------------------------------
    let mut obs: Vec<i128> = Vec::new();
    let mut events = String::new();
    let mut jsched = String::new();
    let mut owed = false;
    let mut stored_head = false;
    let mut lost = false;
    let mut oracle: Option<String> = None;
    let mut first_pstate_step = vec![true; n_wakers + 1];
    let _ = &mut first_pstate_step;
    for (k, (t, p)) in out.exec.iter().enumerate() {
        if k > 0 {
            events.push_str("; ");
            jsched.push(',');
        }
        let _ = write!(jsched, "\"T{t}@{p}\"");
        obs.push(*p as i128);
        if *p == 999 {
            events.push_str("Stuck");
            // Independent oracle: a wake() call was made since the last poll returned, and now the
            // poller is blocked with nobody left to wake it.
            if owed {
                lost = true;
            }
        } else if *t == 0 {
            events.push('P');
            if *p == 6 {
                stored_head = true;
            } else if *p == 3 && stored_head {
                // wake_blocked_futures at the end of the poll: the poll returns after this step
                stored_head = false;
                owed = false;
            }
        } else {
            let _ = write!(events, "W {}%nat", t - 1);
            if *p == 8 {
                owed = true; // PollingState::wake: the linearisation point of wake()
            }
        }
    }
    if lost {
        oracle = Some("SubmissionQueue::wake was called while a Ring::poll was in progress (or before the next one started) and that poll blocked forever: the wake-up was lost".into());
    }
    if let Some(p) = &out.panicked {
        let msg = silent.lock().unwrap().take().unwrap_or_default();
        oracle.get_or_insert(format!("a thread panicked: {p} {msg}"));
    }
    let polls_left = polls - *returned.lock().unwrap();
    let (pstate, cq, sqp) = simk::with_fd(ring_fd, |s| {
        s.check_counters();
        (0i128, s.cq_ready() as i128, s.sq_pending() as i128)
    })
    .unwrap_or((0, 0, 0));
    let _ = pstate;
    for e in simk::with(|s| s.take_log()) {
        if let Ev::Corrupt { what } = e {
            oracle.get_or_insert(what);
        }
    }
    obs.push(-1);
    obs.push(lost as i128);
    obs.push(polls_left as i128);
    obs.push(cq);
    obs.push(sqp);
    drop(sq);
    std::mem::forget(held);
    simk::retire(ring_fd);
    let mode_s = ["Default", "SingleIssuer", "KernelThread"][mode as usize];
    let wk: Vec<String> = wakes_each.iter().map(|k| format!("{k}%nat")).collect();
    let coq = format!(
        "{{| wk_mode := {mode_s}; wk_cap := {cap}%N; wk_prefill := {prefill}%N; wk_polls := {polls}%nat; wk_wakes := [{}]; wk_events := [{events}] |}}",
        wk.join("; ")
    );
    let json = format!(
        "{{\"mode\":\"{mode_s}\",\"sq_entries\":{cap},\"queued_before\":{prefill},\"polls\":{polls},\"wakes_per_waker\":{:?},\"schedule\":[{jsched}]}}",
        wakes_each
    );
    let preemptions = out.trace.iter().filter(|t| t.2).count();
    let blocked_then_woken = out.exec.iter().any(|e| e.1 == 998);
    let tags = vec![
        format!("mode:{mode_s}"),
        format!("queue_full_at_start:{}", prefill == cap),
        format!("wakers:{n_wakers}"),
        format!("preemptions:{}", preemptions.min(6)),
        format!("poller_blocked_then_woken:{blocked_then_woken}"),
        format!("ended_blocked_forever:{}", out.stuck),
        format!("message_sent:{}", out.exec.iter().any(|e| e.0 > 0 && e.1 == 5) || (mode == 1 && blocked_then_woken)),
    ];
    Case { coq, obs, json, oracle, known: None, tags, nontrivial: preemptions > 0 }
}

pub fn run(args: &Args) -> i32 {
    simk::install();
    let silent: Arc<Mutex<Option<String>>> = Arc::new(Mutex::new(None));
    let root = Rng::new(args.seed);
    if std::env::var("A10H_DEBUG").is_ok() {
        for i in 0..args.n.unwrap_or(3) {
            let mut r = root.fork(i as u64);
            one_case(&mut r, &silent, true);
        }
        return 0;
    }
    let n = args.n.unwrap_or(if args.thorough { 30_000 } else { 1_500 });
    let cases = out::run_forked(&args.out, n, 12, &|i| {
        let mut r = root.fork(i as u64);
        one_case(&mut r, &silent, false)
    });
    let spec = Spec { prop: "C11", imports: &["Model.Wake"], run_fn: "run_wkcase", case_ty: "wkcase", shard: 400 };
    out::write_all(&args.out, &spec, &cases, &[]);
    0
}

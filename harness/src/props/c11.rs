//! C11 — SubmissionQueue::wake never loses a wake-up.
//!
//! One poller thread calling `Ring::poll(None)` (no timeout: a lost wake-up blocks forever) or
//! `Ring::poll(Some(1 hour))` (chosen per poll; a lost wake-up sleeps the whole hour) and
//! k waker threads calling `SubmissionQueue::wake`, run under the baton scheduler on the
//! simulated kernel; the executed interleaving is replayed on Model/Wake.v.
//!
//! The hour is never waited for. When the poller is blocked with a timeout and the scheduler finds
//! nobody left who could run, the wait ends with ETIME (`sched::default_block` answers
//! `BlockAction::Etime`): the block handler records that as the marker 996 in the execution log
//! (like 999 for a wait without a timeout), it becomes the event `Timeout` of the model, and the
//! oracle counts it as a lost wake-up when one is owed: the poll slept its whole timeout through it.
//!
//! Single-issuer rings (mode 1, half of them with DEFER_TASKRUN) are built disabled by the case's
//! main thread and enabled by the poller thread before its first poll: the poller is the issuer
//! (Linux: the thread that enables the ring), the waker threads are "another thread" and the
//! simulated kernel refuses their `io_uring_enter` with EEXIST. The code as it is never makes one:
//! it sends the wake message with the synchronous IORING_REGISTER_SEND_MSG_RING.
//!
//! In a third of the cases some of the poller's `io_uring_enter` calls are interrupted by a signal
//! (EINTR), chosen per poll from the case's stream: either *at the call* (the simulated kernel's
//! `fail_next_enter`: the next enter with GETEVENTS does its submission work and then fails; the
//! wakers' enters carry no GETEVENTS flag and never consume it) or *while blocked* (a block handler
//! parks the poller at the extra scheduling point 997 instead of blocking it: the scheduler resumes
//! it whenever it likes, which is the signal arriving, and the wait ends with EINTR unless a
//! completion is there by then or the call had submitted something). The poller segment that made
//! the failing call, resp. the 997 entry, is the event `PI` of the model instead of `P`.
//!
//! In a third of the cases whose submission queue is full at the start (prefill = capacity) 1..3
//! further futures are polled once before the race: they find the queue full and park their waker
//! on the ring's blocked-futures list (`Submissions::wait_for_submission`; checked with the public
//! behaviour: `Pending`, nothing queued, not woken). Their wakers only count; the futures are kept
//! alive to the end and never polled again. `Shared::wake_blocked_futures` (after every successful
//! enter, at the end of every poll) then has something to do as soon as a slot is free: it takes
//! the list, wakes, takes the lock a second time (scheduling point LOCK) to put the rest back. The
//! model gets the number parked (`wk_parked`) and must replay the extra scheduling points; the
//! number still parked at the end is part of the observation.

use std::fmt::Write as _;
use std::sync::atomic::{AtomicBool, Ordering};
use std::sync::{Arc, Mutex};

use crate::out::{self, Case, Spec};
use crate::rng::Rng;
use crate::simk::{self, BlockAction, Ev};
use crate::{sched, Args};

/// What happens to the `io_uring_enter` of one `Ring::poll` call.
#[derive(Clone, Copy, Debug, PartialEq)]
enum Intr {
    No,
    /// The call fails with EINTR after its submission work.
    AtEnter,
    /// A signal arrives some time after the call blocked.
    WhileBlocked,
}

/// One `Ring::poll` call of the poller thread, as the thread saw it.
#[derive(Clone, Copy, Debug)]
struct PollRec {
    plan: Intr,
    /// The armed interruption was used (a poll that finds completions does not enter the kernel; an
    /// awoken poll does not block).
    consumed: bool,
    /// Execution-log range of the call.
    start: usize,
    end: usize,
}

pub fn one_case(r: &mut Rng, silent: &Arc<Mutex<Option<String>>>, debug: bool) -> Case {
    let n_wakers = r.range(1, 3) as usize;
    let wakes_each: Vec<usize> = (0..n_wakers).map(|_| r.range(1, 2) as usize).collect();
    let polls = r.range(1, 3) as usize;
    let mode = r.below(3); // 0 default, 1 single issuer, 2 kernel thread flag
    let preempt = *r.pick(&[5u64, 15, 30, 50]);
    let prefix: Vec<usize> = (0..200).map(|_| if r.below(100) < preempt { 1 + r.below(3) as usize } else { 0 }).collect();

    simk::configure(simk::SetupConfig { sq_start: r.next() as u32, cq_start: r.next() as u32, ..Default::default() });
    let cap: u32 = *r.pick(&[2, 2, 8]);
    let prefill: u32 = *r.pick(&[0, 0, cap - 1, cap, cap]);
    // Interrupted enters: a third of the cases; per poll none / at the call / while blocked.
    let intr_case = r.below(3) == 0;
    let plan: Vec<Intr> = (0..polls)
        .map(|_| {
            if !intr_case {
                return Intr::No;
            }
            match r.below(5) {
                0 => Intr::No,
                1 | 2 => Intr::AtEnter,
                _ => Intr::WhileBlocked,
            }
        })
        .collect();
    // Parked futures: a third of the cases that start with a full queue (drawn last: the cases
    // without them are what they were before this was added).
    let n_parked: u32 = if prefill == cap && r.below(3) == 0 { r.range(1, 3) as u32 } else { 0 };
    // Per poll: no timeout, or a finite one (never waited for: the scheduler decides). Drawn after
    // everything else: the other choices of a case are what they were before this was added.
    let timed: Vec<bool> = (0..polls).map(|_| r.below(2) == 0).collect();
    let defer_taskrun = r.below(2) == 0;
    // One case in four on a default ring with room for two more entries (drawn last: the other
    // cases are what they were): the first waker thread queues an unrelated operation (a write
    // that never completes) right before its first wake(), so the wake message is NOT at the head
    // of the submission queue when wake() enters the kernel. The threads of the model queue wake
    // messages only: these cases are judged by the oracle alone (no Coq term, nothing replayed).
    let queue_ahead = r.below(4) == 0 && mode == 0 && prefill + 2 <= cap;
    let cfg = a10::Ring::config().with_submission_queue_size(cap);
    let cfg = match mode {
        // Built disabled: the thread that enables the ring (the poller) becomes its issuer.
        1 if defer_taskrun => cfg.single_issuer().defer_task_run().disable(),
        1 => cfg.single_issuer().disable(),
        2 => cfg.with_kernel_thread(),
        _ => cfg,
    };
    let mut ring = cfg.build().expect("ring on the simulated kernel");
    let ring_fd = simk::with(|s| s.fd);
    let sq = ring.sq();
    // Operations queued before the race (never submitted by anybody but enter, never completing):
    // they make the submission queue (nearly) full when wake() wants to queue its message.
    static DATA: &[u8] = b"x";
    let mut held = Vec::new();
    for k in 0..prefill {
        let fd = Box::leak(Box::new(std::mem::ManuallyDrop::new(unsafe { a10::AsyncFd::from_raw_fd(1_000_000 + k as i32, sq.clone()) })));
        let mut f: std::pin::Pin<Box<dyn std::future::Future<Output = std::io::Result<usize>> + Send>> = Box::pin(fd.write(DATA));
        let w = crate::util::WakeLog::default().waker(0);
        let _ = crate::util::poll_once(f.as_mut(), &w);
        held.push(f);
    }
    // Futures polled while the queue is full: they park on the blocked-futures list.
    let park_log = crate::util::WakeLog::default();
    let mut parked = Vec::new();
    let mut park_failed: Option<String> = None;
    for j in 0..n_parked {
        let before = simk::with_fd(ring_fd, |s| s.sq_pending()).unwrap_or(0);
        let fd = Box::leak(Box::new(std::mem::ManuallyDrop::new(unsafe { a10::AsyncFd::from_raw_fd(2_000_000 + j as i32, sq.clone()) })));
        let mut f: std::pin::Pin<Box<dyn std::future::Future<Output = std::io::Result<usize>> + Send>> = Box::pin(fd.write(DATA));
        let w = park_log.waker(100 + j as u64);
        let pending = crate::util::poll_once(f.as_mut(), &w).is_pending();
        let after = simk::with_fd(ring_fd, |s| s.sq_pending()).unwrap_or(0);
        if !pending || after != before || before != cap {
            park_failed.get_or_insert(format!(
                "setup: future {j} polled while the submission queue was full did not park (pending={pending}, queued before/after={before}/{after}, entries={cap})"
            ));
        }
        parked.push(f);
    }
    if !park_log.take().is_empty() {
        park_failed.get_or_insert("setup: a parked future was woken before any slot was free".into());
    }
    let total_wakes: usize = wakes_each.iter().sum();
    let returned = Arc::new(Mutex::new(0usize));
    let recs: Arc<Mutex<Vec<PollRec>>> = Arc::new(Mutex::new(Vec::new()));
    // A signal is due for the poll in progress once it blocks.
    let signal_due = Arc::new(AtomicBool::new(false));
    let enable_failed: Arc<Mutex<Option<String>>> = Arc::new(Mutex::new(None));
    {
        let signal_due = signal_due.clone();
        simk::set_block_handler(Some(Box::new(move |fd, has_timeout| {
            if signal_due.swap(false, Ordering::SeqCst) {
                // Not blocked as far as the scheduler is concerned: it resumes the poller whenever it
                // likes (others may run first); being resumed from 997 is the signal arriving.
                sched::yield_point(997);
                BlockAction::Eintr
            } else {
                // `has_timeout` is what the kernel was given, not what the caller of poll passed.
                let action = sched::default_block(fd, has_timeout);
                if action == BlockAction::Etime {
                    // Nobody left to run: the timeout expires (the poll slept all of it).
                    sched::push_marker(996);
                }
                action
            }
        })));
    }
    let mut threads: Vec<Box<dyn FnOnce() + Send>> = Vec::new();
    {
        let returned = returned.clone();
        let recs = recs.clone();
        let signal_due = signal_due.clone();
        let plan = plan.clone();
        let timed = timed.clone();
        let enable_failed = enable_failed.clone();
        threads.push(Box::new(move || {
            if mode == 1 {
                // The poller becomes the issuer of the single-issuer ring.
                if let Err(e) = ring.enable() {
                    *enable_failed.lock().unwrap() = Some(format!("setup: Ring::enable on the poller thread failed: {e}"));
                }
            }
            for k in 0..polls {
                match plan[k] {
                    Intr::No => {}
                    Intr::AtEnter => {
                        simk::with_fd(ring_fd, |s| s.fail_next_enter = Some((libc::EINTR, Vec::new())));
                    }
                    Intr::WhileBlocked => signal_due.store(true, Ordering::SeqCst),
                }
                let start = sched::exec_len();
                let _ = ring.poll(if timed[k] { Some(std::time::Duration::from_secs(3600)) } else { None });
                let end = sched::exec_len();
                // Disarm what was not used.
                let consumed = match plan[k] {
                    Intr::No => false,
                    Intr::AtEnter => simk::with_fd(ring_fd, |s| s.fail_next_enter.take().is_none()).unwrap_or(false),
                    Intr::WhileBlocked => !signal_due.swap(false, Ordering::SeqCst),
                };
                recs.lock().unwrap().push(PollRec { plan: plan[k], consumed, start, end });
                *returned.lock().unwrap() += 1;
            }
            // Keep the ring alive until the end of the run.
            std::mem::forget(ring);
        }));
    }
    for (wi, k) in wakes_each.iter().copied().enumerate() {
        let sq = sq.clone();
        let queue_first = queue_ahead && wi == 0;
        threads.push(Box::new(move || {
            if queue_first {
                let fd = Box::leak(Box::new(std::mem::ManuallyDrop::new(unsafe { a10::AsyncFd::from_raw_fd(3_000_000, sq.clone()) })));
                let mut f: std::pin::Pin<Box<dyn std::future::Future<Output = std::io::Result<usize>> + Send>> = Box::pin(fd.write(DATA));
                let w = crate::util::WakeLog::default().waker(0);
                let _ = crate::util::poll_once(f.as_mut(), &w);
                std::mem::forget(f);
            }
            for _ in 0..k {
                sq.wake();
            }
        }));
    }
    let _ = simk::with(|s| s.take_log());
    let out = sched::run(threads, &prefix);
    simk::set_block_handler(None);
    let recs: Vec<PollRec> = recs.lock().unwrap().clone();
    // The poller segments that made an enter call which failed at once with EINTR: within the
    // execution-log range of that poll, the poller entry immediately before the poll's second
    // POLLING_STATE point (set_polling(false) follows the enter; the segment resumed from the last
    // load before the syscall made the call).
    let mut intr_at: Vec<usize> = Vec::new();
    for rec in &recs {
        if rec.plan != Intr::AtEnter || !rec.consumed {
            continue;
        }
        let mine: Vec<usize> = (rec.start..rec.end.min(out.exec.len())).filter(|&k| out.exec[k].0 == 0).collect();
        let swaps: Vec<usize> = (0..mine.len()).filter(|&j| out.exec[mine[j]].1 == 8).collect();
        if swaps.len() >= 2 && swaps[1] > 0 {
            intr_at.push(mine[swaps[1] - 1]);
        }
    }
    if debug {
        println!("plan {plan:?} recs {recs:?} intr_at {intr_at:?}");
        println!("mode {mode} defer {defer_taskrun} wakers {n_wakers} wakes {:?} polls {polls} timed {timed:?} cap {cap} prefill {prefill} parked {n_parked}", wakes_each);
        for (t, p) in &out.exec {
            print!("T{t}@{p} ");
        }
        println!("\nstuck={} panicked={:?} returned={}", out.stuck, out.panicked, returned.lock().unwrap());
        for e in simk::with(|s| s.take_log()) {
            match e {
                Ev::Enter { .. } | Ev::Blocked { .. } | Ev::Posted { .. } | Ev::Consumed { .. } | Ev::Register { .. } => println!("  {e:?}"),
                _ => {}
            }
        }
    }
    let _ = total_wakes;
    // ---- observations: the executed interleaving, then the end state -------------------------------
    let mut obs: Vec<i128> = Vec::new();
    let mut events = String::new();
    let mut jsched = String::new();
    let mut owed = false;
    let poll_ends: Vec<usize> = recs.iter().map(|r| r.end).collect();
    let mut lost = false;
    let mut oracle: Option<String> = None;
    let mut first_pstate_step = vec![true; n_wakers + 1];
    let _ = &mut first_pstate_step;
    // Interrupted enters seen in the log: (at the call / while blocked, a wake-up owed at that moment).
    let mut intr_seen: Vec<(Intr, bool)> = Vec::new();
    // Timeouts that expired (marker 996): was a wake-up owed at that moment.
    let mut expired: Vec<bool> = Vec::new();
    let mut slept_through = false;
    for (k, (t, p)) in out.exec.iter().enumerate() {
        if k > 0 {
            events.push_str("; ");
            jsched.push(',');
        }
        // A poll returned exactly when the execution log had this many entries (read by the poller
        // thread right after `Ring::poll` came back): what was owed is served by that return.
        if poll_ends.contains(&k) {
            owed = false;
        }
        let interrupted = *t == 0 && (*p == 997 || intr_at.contains(&k));
        let _ = write!(jsched, "\"T{t}@{p}{}\"", if interrupted { ":EINTR" } else { "" });
        obs.push(*p as i128);
        if interrupted {
            // The poller's step with its enter interrupted. For the oracle it is a poller step like
            // any other (it is neither the head store nor the end-of-poll try_lock).
            events.push_str("PI");
            intr_seen.push((if *p == 997 { Intr::WhileBlocked } else { Intr::AtEnter }, owed));
            continue;
        }
        if *p == 999 {
            events.push_str("Stuck");
            // Independent oracle: a wake() call was made since the last poll returned, and now the
            // poller is blocked with nobody left to wake it.
            if owed {
                lost = true;
            }
        } else if *p == 996 {
            events.push_str("Timeout");
            // The same for a wait with a timeout: it went on until the timeout expired.
            expired.push(owed);
            if owed {
                lost = true;
                slept_through = true;
            }
        } else if *t == 0 {
            events.push('P');
        } else {
            let _ = write!(events, "W {}%nat", t - 1);
            if *p == 8 {
                owed = true; // PollingState::wake: the linearisation point of wake()
            }
        }
    }
    if lost {
        oracle = Some(if slept_through {
            "SubmissionQueue::wake was called while a Ring::poll with a timeout was in progress (or before it started) and that poll slept until its timeout expired: the wake-up was lost".to_string()
        } else {
            "SubmissionQueue::wake was called while a Ring::poll was in progress (or before the next one started) and that poll blocked forever: the wake-up was lost".to_string()
        });
    }
    if let Some(what) = enable_failed.lock().unwrap().take() {
        oracle.get_or_insert(what);
    }
    if let Some(what) = park_failed {
        oracle.get_or_insert(what);
    }
    if let Some(p) = &out.panicked {
        let msg = silent.lock().unwrap().take().unwrap_or_default();
        oracle.get_or_insert(format!("a thread panicked: {p} {msg}"));
    }
    let polls_left = polls - *returned.lock().unwrap();
    let (pstate, cq, sqp, refused) = simk::with_fd(ring_fd, |s| {
        s.check_counters();
        (0i128, s.cq_ready() as i128, s.sq_pending() as i128, s.refused_not_issuer)
    })
    .unwrap_or((0, 0, 0, 0));
    // A poll with a timeout that blocked and was resumed because something arrived: a 998 entry of
    // the poller inside the execution-log range of a poll called with a timeout.
    let blocked_timed_then_woken = recs.iter().enumerate().any(|(k, rec)| {
        timed[k] && (rec.start..rec.end.min(out.exec.len())).any(|j| out.exec[j] == (0, 998))
    });
    let _ = pstate;
    for e in simk::with(|s| s.take_log()) {
        if let Ev::Corrupt { what } = e {
            oracle.get_or_insert(what);
        }
    }
    obs.push(-1);
    obs.push(lost as i128);
    obs.push(polls_left as i128);
    obs.push(cq);
    obs.push(sqp);
    // Parked futures woken during the race (each waker is on the list once; waking only counts).
    let parked_woken = park_log.take().len();
    obs.push(n_parked as i128 - parked_woken as i128);
    drop(sq);
    std::mem::forget(held);
    std::mem::forget(parked);
    simk::retire(ring_fd);
    let mode_s = ["Default", "SingleIssuer", "KernelThread"][mode as usize];
    let wk: Vec<String> = wakes_each.iter().map(|k| format!("{k}%nat")).collect();
    let coq = if queue_ahead { String::new() } else { format!(
        "{{| wk_mode := {mode_s}; wk_cap := {cap}%N; wk_prefill := {prefill}%N; wk_parked := {n_parked}%N; wk_polls := {polls}%nat; wk_timed := [{}]; wk_wakes := [{}]; wk_events := [{events}] |}}",
        timed.iter().map(|b| b.to_string()).collect::<Vec<_>>().join("; "),
        wk.join("; ")
    ) };
    let plan_s: Vec<String> = plan.iter().map(|p| format!("\"{p:?}\"")).collect();
    let json = format!(
        "{{\"mode\":\"{mode_s}\",\"unrelated_submission_queued_by_waker0_before_wake\":{queue_ahead},\"sq_entries\":{cap},\"queued_before\":{prefill},\"futures_parked_before\":{n_parked},\"polls\":{polls},\"poll_timeout_per_poll\":[{}],\"single_issuer_defer_taskrun\":{},\"wakes_per_waker\":{:?},\"enter_interrupted_per_poll\":[{}],\"schedule\":[{jsched}]}}",
        timed.iter().map(|b| if *b { "\"Some(3600s)\"" } else { "\"None\"" }).collect::<Vec<_>>().join(","),
        mode == 1 && defer_taskrun,
        wakes_each,
        plan_s.join(",")
    );
    let preemptions = out.trace.iter().filter(|t| t.2).count();
    let blocked_then_woken = out.exec.iter().any(|e| e.1 == 998);
    // The second lock of wake_blocked_futures (only taken when it found parked futures): the poller
    // takes no other lock; a waker's is the LOCK point that follows its TRY_LOCK point.
    let lock2_poller = out.exec.iter().any(|e| e.0 == 0 && e.1 == 1);
    let lock2_waker = (1..=n_wakers).any(|t| {
        let mine: Vec<u32> = out.exec.iter().filter(|e| e.0 == t).map(|e| e.1).collect();
        mine.windows(2).any(|w| w[0] == 3 && w[1] == 1)
    });
    let tags = vec![
        format!("mode:{mode_s}"),
        format!("queue_full_at_start:{}", prefill == cap),
        format!("wakers:{n_wakers}"),
        format!("preemptions:{}", preemptions.min(6)),
        format!("poller_blocked_then_woken:{blocked_then_woken}"),
        format!("ended_blocked_forever:{}", out.stuck),
        format!("message_sent:{}", out.exec.iter().any(|e| e.0 > 0 && e.1 == 5) || (mode == 1 && blocked_then_woken)),
        format!(
            "enter_interrupted:{}",
            match (intr_seen.iter().any(|i| i.0 == Intr::AtEnter), intr_seen.iter().any(|i| i.0 == Intr::WhileBlocked)) {
                (false, false) if intr_case => "armed_not_used",
                (false, false) => "no",
                (true, false) => "at_the_call",
                (false, true) => "while_blocked",
                (true, true) => "both",
            }
        ),
        format!(
            "enter_interrupted_mode_owed:{}",
            if intr_seen.is_empty() { "-".to_string() } else { format!("{mode_s}/owed={}", intr_seen.iter().any(|i| i.1)) }
        ),
        format!("enter_interrupted_count:{}", intr_seen.len()),
        format!("parked:{n_parked}"),
        format!("parked_mode:{}", if n_parked == 0 { "-".to_string() } else { format!("{mode_s}/{n_parked}") }),
        format!("parked_woken:{}", if n_parked == 0 { "-".to_string() } else { format!("{parked_woken}of{n_parked}") }),
        format!(
            "parked_second_lock_by:{}",
            match (lock2_poller, lock2_waker) {
                _ if n_parked == 0 => "-",
                (false, false) => "nobody",
                (true, false) => "poller",
                (false, true) => "waker",
                (true, true) => "both",
            }
        ),
        format!("parked_poller_blocked:{}", if n_parked == 0 { "-".to_string() } else { format!("{}", blocked_then_woken || out.stuck) }),
        format!("parked_enter_interrupted:{}", if n_parked == 0 { "-".to_string() } else { format!("{}", !intr_seen.is_empty()) }),
        format!("polls_with_timeout:{}of{polls}", timed.iter().filter(|b| **b).count()),
        format!("timeouts_expired:{}", expired.len()),
        format!("timeout_expired_with_wakeup_owed:{}", expired.iter().any(|o| *o)),
        format!("timed_poll_blocked_then_woken:{}", blocked_timed_then_woken),
        format!("single_issuer_ring:{}", if mode != 1 { "-" } else if defer_taskrun { "defer_taskrun" } else { "plain" }),
        format!("enters_refused_not_issuer:{refused}"),
        format!("unrelated_submission_in_front_of_wake_message:{}", if !queue_ahead { "-".to_string() } else { format!("poller_blocked_then_woken={blocked_then_woken}") }),
    ];
    Case { coq, obs, json, oracle, known: None, tags, nontrivial: preemptions > 0 }
}

pub fn run(args: &Args) -> i32 {
    simk::install();
    let silent: Arc<Mutex<Option<String>>> = Arc::new(Mutex::new(None));
    let root = Rng::new(args.seed);
    if std::env::var("A10H_DEBUG").is_ok() {
        for i in 0..args.n.unwrap_or(3) {
            let mut r = root.fork(i as u64);
            one_case(&mut r, &silent, true);
        }
        return 0;
    }
    let n = args.n.unwrap_or(if args.thorough { 30_000 } else { 1_500 });
    let cases = out::run_forked(&args.out, n, 12, &|i| {
        let mut r = root.fork(i as u64);
        one_case(&mut r, &silent, false)
    });
    let spec = Spec { prop: "C11", imports: &["Model.Wake"], run_fn: "run_wkcase", case_ty: "wkcase", shard: 400 };
    out::write_all(&args.out, &spec, &cases, &[]);
    0
}

//! Baton-passing scheduler: real OS threads that run one at a time. A thread gives up the baton
//! only at a scheduling point (hook B in a10: lock acquisition, loads/stores of kernel-shared
//! words, the polling state; plus the simulated kernel's blocking wait). A schedule is the list
//! of choices made at the points where more than one thread could run; `explore` enumerates
//! schedules depth-first with a preemption bound and replays are exact.

use std::cell::Cell;
use std::sync::{Condvar, Mutex, MutexGuard, OnceLock};

use crate::simk::BlockAction;

#[derive(Clone, Copy, Debug, PartialEq, Eq)]
enum Status {
    Runnable,
    /// Failed a `try_lock`; pointless to schedule until someone else has run.
    Spinning,
    /// Inside a blocking kernel wait.
    Blocked,
    Done,
}

struct State {
    active: bool,
    current: usize,
    status: Vec<Status>,
    /// Ring descriptor a blocked thread waits on (it becomes schedulable once a CQE is there).
    waiting_on: Vec<Option<i32>>,
    /// Prefix of choices to replay; beyond it the default (stay on the current thread) applies.
    prefix: Vec<usize>,
    /// (number of options, chosen index, was a preemption) at every real decision point.
    trace: Vec<(usize, usize, bool)>,
    /// Thread id chosen at each decision (for replay files).
    order: Vec<usize>,
    steps: usize,
    /// (thread, point it was resumed from) in execution order: one entry per executed segment.
    exec: Vec<(usize, u32)>,
    stuck: bool,
    /// Set when a thread panicked.
    panicked: Option<String>,
}

struct Sched {
    m: Mutex<State>,
    cv: Condvar,
}

fn sched() -> &'static Sched {
    static S: OnceLock<Sched> = OnceLock::new();
    S.get_or_init(|| Sched {
        m: Mutex::new(State {
            active: false,
            current: 0,
            status: Vec::new(),
            waiting_on: Vec::new(),
            prefix: Vec::new(),
            trace: Vec::new(),
            order: Vec::new(),
            steps: 0,
            exec: Vec::new(),
            stuck: false,
            panicked: None,
        }),
        cv: Condvar::new(),
    })
}

fn lock() -> MutexGuard<'static, State> {
    match sched().m.lock() {
        Ok(g) => g,
        Err(e) => e.into_inner(),
    }
}

thread_local! {
    static TID: Cell<Option<usize>> = const { Cell::new(None) };
    static SPINS: Cell<u32> = const { Cell::new(0) };
}

const MAX_STEPS: usize = 20_000;

/// Pick who runs next. `me` is the calling thread (its status already updated).
fn switch(mut st: MutexGuard<'static, State>, me: usize) {
    // Options: the current thread first (if runnable), then the other runnable threads in id
    // order, then threads that spun on a taken lock since anybody last made progress (scheduling
    // those first would only repeat the failed attempt).
    let mut options = Vec::new();
    if st.status[me] == Status::Runnable {
        options.push(me);
    }
    for t in 0..st.status.len() {
        if t != me && st.status[t] == Status::Runnable {
            options.push(t);
        }
        if t != me && st.status[t] == Status::Blocked {
            if let Some(fd) = st.waiting_on[t] {
                if crate::simk::with_fd(fd, |s| s.cq_ready() > 0 || (s.flags & crate::simk::abi::SETUP_SQPOLL != 0 && s.sq_pending() > 0)).unwrap_or(false) {
                    options.push(t);
                }
            }
        }
    }
    for t in 0..st.status.len() {
        if t != me && st.status[t] == Status::Spinning {
            options.push(t);
        }
    }
    if options.is_empty() {
        // Only spinning/blocked/done threads: let `me` continue if it is spinning (it will
        // observe whether the lock was released), otherwise nothing can run.
        if st.status[me] == Status::Spinning {
            st.status[me] = Status::Runnable;
            // Nobody else can run, so nobody can release the lock `me` spins on: a mutex locked by
            // `me` itself, or left "locked" in memory that was freed (and poisoned) under it.
            let n = SPINS.with(|c| {
                c.set(c.get() + 1);
                c.get()
            });
            if n > 100 {
                SPINS.with(|c| c.set(0));
                drop(st);
                panic!("deadlock: this thread spins on a mutex nobody else can release (taken by itself, or inside freed memory)");
            }
        }
        return;
    }
    SPINS.with(|c| c.set(0));
    st.steps += 1;
    let chosen = if options.len() == 1 || st.steps > MAX_STEPS {
        0
    } else {
        let k = st.trace.len();
        let c = if k < st.prefix.len() { st.prefix[k].min(options.len() - 1) } else { 0 };
        let preempt = c != 0 && options[0] == me;
        st.trace.push((options.len(), c, preempt));
        st.order.push(options[c]);
        c
    };
    let next = options[chosen];
    if st.status[next] == Status::Spinning {
        st.status[next] = Status::Runnable;
    }
    if next == me {
        return;
    }
    st.current = next;
    sched().cv.notify_all();
    while st.current != me {
        st = match sched().cv.wait(st) {
            Ok(g) => g,
            Err(e) => e.into_inner(),
        };
    }
}

type Injector = Box<dyn FnMut(u32) + Send>;

fn injector() -> MutexGuard<'static, Option<Injector>> {
    static I: OnceLock<Mutex<Option<Injector>>> = OnceLock::new();
    match I.get_or_init(|| Mutex::new(None)).lock() {
        Ok(g) => g,
        Err(e) => e.into_inner(),
    }
}

/// Single-threaded drivers: `f(point)` is called at every scheduling point reached by a thread
/// that is not managed by the scheduler (used to let the simulated kernel act in the middle of
/// an a10 call).
pub fn set_injector(f: Option<Injector>) {
    *injector() = f;
}

type Observer = Box<dyn FnMut(usize, u32) + Send>;

fn observer() -> MutexGuard<'static, Option<Observer>> {
    static O: OnceLock<Mutex<Option<Observer>>> = OnceLock::new();
    match O.get_or_init(|| Mutex::new(None)).lock() {
        Ok(g) => g,
        Err(e) => e.into_inner(),
    }
}

/// Segment observer: `f(thread, point)` is called by a managed thread each time an entry is added
/// to the execution log, i.e. after the previous segment (of whichever thread) ended and before
/// the segment resumed from `point` runs. Drivers use it to attribute what they log (wake-ups,
/// frees, consumed submissions) to the executed segment it happened in.
pub fn set_observer(f: Option<Observer>) {
    *observer() = f;
}

/// Hook B entry point (installed in the a10 verif table).
pub fn yield_point(point: u32) {
    let Some(me) = TID.with(Cell::get) else {
        // Unmanaged thread: a lock that stays taken can never be released by anyone else.
        if point == a10::verif::points::LOCK_SPIN {
            let n = SPINS.with(|c| {
                c.set(c.get() + 1);
                c.get()
            });
            if n > 200 {
                SPINS.with(|c| c.set(0));
                panic!("deadlock: a mutex taken by this thread (or left locked in freed memory) is locked again");
            }
            return;
        }
        SPINS.with(|c| c.set(0));
        let mut g = injector();
        if let Some(f) = g.as_mut() {
            f(point);
        }
        return;
    };
    let mut st = lock();
    if !st.active {
        return;
    }
    if point == a10::verif::points::LOCK_SPIN {
        st.status[me] = Status::Spinning;
    } else {
        // Progress: whoever spun may try again.
        for t in 0..st.status.len() {
            if st.status[t] == Status::Spinning {
                st.status[t] = Status::Runnable;
            }
        }
    }
    switch(st, me);
    // We hold the baton again: the segment after `point` runs now.
    lock().exec.push((me, point));
    if let Some(f) = observer().as_mut() {
        f(me, point);
    }
}

/// What a blocking kernel wait with nothing to return does.
pub fn default_block(fd: i32, has_timeout: bool) -> BlockAction {
    let Some(me) = TID.with(Cell::get) else {
        // Single-threaded driver: a timeout expires, no timeout means stuck forever.
        if has_timeout {
            return BlockAction::Etime;
        }
        lock().stuck = true;
        return BlockAction::Stuck;
    };
    let mut st = lock();
    if !st.active {
        return if has_timeout { BlockAction::Etime } else { BlockAction::Stuck };
    }
    let others = (0..st.status.len()).any(|t| t != me && matches!(st.status[t], Status::Runnable | Status::Spinning));
    if !others {
        if has_timeout {
            return BlockAction::Etime;
        }
        st.stuck = true;
        st.exec.push((me, 999));
        return BlockAction::Stuck;
    }
    st.status[me] = Status::Blocked;
    st.waiting_on[me] = Some(fd);
    switch(st, me);
    let mut st = lock();
    st.status[me] = Status::Runnable;
    st.waiting_on[me] = None;
    st.exec.push((me, 998));
    BlockAction::Retry
}

/// Add a marker entry `(calling thread, code)` to the execution log (a managed thread holding the
/// baton; used by C11 for 996 = "the finite timeout of this thread's blocked wait expired because
/// nobody is left who could run": `default_block` answered `BlockAction::Etime`).
pub fn push_marker(code: u32) {
    if let Some(me) = TID.with(Cell::get) {
        let mut st = lock();
        if st.active {
            st.exec.push((me, code));
        }
    }
}

/// Number of entries in the execution log so far (a managed thread holding the baton can bracket
/// a call with it to find the segments the call was made of).
pub fn exec_len() -> usize {
    lock().exec.len()
}

pub fn take_stuck() -> bool {
    std::mem::replace(&mut lock().stuck, false)
}

pub struct Outcome {
    pub exec: Vec<(usize, u32)>,
    pub trace: Vec<(usize, usize, bool)>,
    pub order: Vec<usize>,
    pub stuck: bool,
    pub panicked: Option<String>,
    pub steps: usize,
}

/// Run the closures as threads 0..n under the schedule `prefix`.
pub fn run(threads: Vec<Box<dyn FnOnce() + Send>>, prefix: &[usize]) -> Outcome {
    let n = threads.len();
    {
        let mut st = lock();
        st.active = true;
        st.current = 0;
        st.status = vec![Status::Runnable; n];
        st.waiting_on = vec![None; n];
        st.prefix = prefix.to_vec();
        st.trace.clear();
        st.order.clear();
        st.steps = 0;
        st.exec.clear();
        st.stuck = false;
        st.panicked = None;
    }
    let mut handles = Vec::new();
    for (tid, f) in threads.into_iter().enumerate() {
        handles.push(std::thread::spawn(move || {
            TID.with(|t| t.set(Some(tid)));
            {
                let mut st = lock();
                while st.current != tid {
                    st = match sched().cv.wait(st) {
                        Ok(g) => g,
                        Err(e) => e.into_inner(),
                    };
                }
            }
            let res = std::panic::catch_unwind(std::panic::AssertUnwindSafe(f));
            let mut st = lock();
            if let Err(p) = res {
                let msg = p
                    .downcast_ref::<String>()
                    .cloned()
                    .or_else(|| p.downcast_ref::<&str>().map(|s| s.to_string()))
                    .unwrap_or_else(|| "panic".into());
                st.panicked.get_or_insert(format!("thread {tid}: {msg}"));
            }
            st.status[tid] = Status::Done;
            // Hand the baton to someone who can run (blocked threads get to re-check).
            let next = (0..st.status.len())
                .find(|&t| matches!(st.status[t], Status::Runnable | Status::Spinning))
                .or_else(|| (0..st.status.len()).find(|&t| st.status[t] == Status::Blocked));
            if let Some(next) = next {
                if st.status[next] != Status::Blocked {
                    st.status[next] = Status::Runnable;
                }
                st.current = next;
                sched().cv.notify_all();
            }
            TID.with(|t| t.set(None));
        }));
    }
    for h in handles {
        let _ = h.join();
    }
    let mut st = lock();
    st.active = false;
    Outcome {
        exec: std::mem::take(&mut st.exec),
        trace: std::mem::take(&mut st.trace),
        order: std::mem::take(&mut st.order),
        stuck: st.stuck,
        panicked: st.panicked.take(),
        steps: st.steps,
    }
}

/// Depth-first enumeration of schedules with at most `max_preempt` preemptions and at most
/// `max_runs` executions. `body(prefix)` must build fresh state, call `run` and return its outcome.
pub fn explore(max_preempt: usize, max_runs: usize, mut body: impl FnMut(&[usize]) -> Outcome) -> (usize, bool) {
    let mut prefix: Vec<usize> = Vec::new();
    let mut runs = 0;
    loop {
        let out = body(&prefix);
        runs += 1;
        if runs >= max_runs {
            return (runs, false);
        }
        // Next prefix: deepest decision that can be advanced within the preemption budget.
        let trace = out.trace;
        let mut k = trace.len();
        let mut next = None;
        while k > 0 {
            k -= 1;
            let (n, c, _) = trace[k];
            if c + 1 < n {
                let preempts_before: usize = trace[..k].iter().filter(|t| t.2).count();
                // Advancing to a non-zero choice is a preemption when option 0 was the running thread;
                // conservatively count every non-zero choice.
                if preempts_before + 1 <= max_preempt {
                    let mut p: Vec<usize> = trace[..k].iter().map(|t| t.1).collect();
                    p.push(c + 1);
                    next = Some(p);
                    break;
                }
            }
        }
        match next {
            Some(p) => prefix = p,
            None => return (runs, true),
        }
    }
}

//! Small helpers shared by drivers: counting wakers, polling futures by hand.

use std::future::Future;
use std::pin::Pin;
use std::sync::{Arc, Mutex};
use std::task::{Context, Poll, Wake, Waker};

/// Shared log of wake-ups (waker ids in the order they were woken).
#[derive(Clone, Default)]
pub struct WakeLog(pub Arc<Mutex<Vec<u64>>>, Arc<Mutex<std::collections::HashMap<u64, Waker>>>);

impl WakeLog {
    pub fn take(&self) -> Vec<u64> {
        std::mem::take(&mut *self.0.lock().unwrap())
    }
    /// The waker with this id. Asking twice for the same id gives clones of ONE waker (as an
    /// executor re-polling a task does): `Waker::will_wake` is true between them, so code paths
    /// that skip work for "the same waker" are exercised.
    pub fn waker(&self, id: u64) -> Waker {
        let mut m = self.1.lock().unwrap();
        m.entry(id).or_insert_with(|| Waker::from(Arc::new(IdWaker { id, log: self.0.clone() }))).clone()
    }
}

struct IdWaker {
    id: u64,
    log: Arc<Mutex<Vec<u64>>>,
}

impl Wake for IdWaker {
    fn wake(self: Arc<Self>) {
        self.log.lock().unwrap().push(self.id);
    }
    fn wake_by_ref(self: &Arc<Self>) {
        self.log.lock().unwrap().push(self.id);
    }
}

pub fn poll_once<F: Future + ?Sized>(fut: Pin<&mut F>, waker: &Waker) -> Poll<F::Output> {
    let mut ctx = Context::from_waker(waker);
    fut.poll(&mut ctx)
}

/// errno of an `io::Result` as a negative integer, or the mapped ok value.
pub fn res_code<T>(r: &std::io::Result<T>, ok: impl FnOnce(&T) -> i128) -> i128 {
    match r {
        Ok(v) => ok(v),
        Err(e) => match e.raw_os_error() {
            Some(c) => -(c as i128),
            None => -(100_000 + e.kind() as i128),
        },
    }
}

//! Output plumbing shared by all property drivers.
//!
//! Every driver produces a list of `Case`s. For each: the case as a Coq term, the
//! implementation's observation canonicalised to a list of integers, a human readable JSON
//! rendering, the verdict of the property oracle and a set of tags used for the measured
//! input distribution. `write_all` shards them into `cases_<k>.v` files (evaluated by coqc
//! with `vm_compute`) plus `impl.jsonl` and `summary.json`.

use std::collections::BTreeMap;
use std::fmt::Write as _;
use std::fs;

pub struct Case {
    /// The case as a Coq term of the property's case type.
    pub coq: String,
    /// Implementation observation (compared with the model's run of `coq`).
    pub obs: Vec<i128>,
    /// JSON rendering of the case for replay files and evidence samples.
    pub json: String,
    /// `None` = the oracle found nothing wrong; `Some(what)` = the property fails here.
    pub oracle: Option<String>,
    /// Known-finding class the oracle failure falls in (if any).
    pub known: Option<String>,
    /// Tags for the distribution report.
    pub tags: Vec<String>,
    /// Non-trivial by the property's stated rule.
    pub nontrivial: bool,
}

pub struct Spec<'a> {
    pub prop: &'a str,
    /// Coq modules to import in the generated files.
    pub imports: &'a [&'a str],
    /// Name of the Coq function `case -> list Z`.
    pub run_fn: &'a str,
    /// Coq type of a case.
    pub case_ty: &'a str,
    pub shard: usize,
}

pub fn zlist(xs: &[i128]) -> String {
    let mut s = String::from("[");
    for (i, x) in xs.iter().enumerate() {
        if i > 0 {
            s.push_str("; ");
        }
        if *x < 0 {
            let _ = write!(s, "({x})");
        } else {
            let _ = write!(s, "{x}");
        }
    }
    s.push(']');
    s
}

pub fn jstr(s: &str) -> String {
    let mut o = String::from("\"");
    for c in s.chars() {
        match c {
            '"' => o.push_str("\\\""),
            '\\' => o.push_str("\\\\"),
            '\n' => o.push_str("\\n"),
            c if (c as u32) < 0x20 => {
                let _ = write!(o, "\\u{:04x}", c as u32);
            }
            c => o.push(c),
        }
    }
    o.push('"');
    o
}

pub fn write_all(dir: &str, spec: &Spec<'_>, cases: &[Case], extra: &[(&str, String)]) {
    // Sharded Coq files.
    let mut shard = 0;
    for chunk in cases.chunks(spec.shard.max(1)) {
        let mut v = String::new();
        for m in spec.imports {
            let _ = writeln!(v, "From A10 Require Import {m}.");
        }
        v.push_str("From A10 Require Import Base.Run.\nOpen Scope Z_scope.\n");
        let _ = writeln!(v, "Definition cases : list (Z * {} * list Z) := [", spec.case_ty);
        let base = shard * spec.shard;
        for (i, c) in chunk.iter().enumerate() {
            let sep = if i + 1 == chunk.len() { "" } else { ";" };
            let _ = writeln!(v, "  ({}, ({}), {}){}", base + i, c.coq, zlist(&c.obs), sep);
        }
        v.push_str("].\n");
        let _ = writeln!(v, "Eval vm_compute in (mismatches {} cases).", spec.run_fn);
        fs::write(format!("{dir}/cases_{shard}.v"), v).unwrap();
        shard += 1;
    }
    // Per-case JSON lines.
    let mut j = String::new();
    let mut dist: BTreeMap<String, usize> = BTreeMap::new();
    let mut distinct = std::collections::BTreeSet::new();
    let mut oracle_fail = 0;
    let mut known_fail = 0;
    for (i, c) in cases.iter().enumerate() {
        let _ = writeln!(
            j,
            "{{\"i\":{i},\"case\":{},\"impl_obs\":{},\"oracle\":{},\"known\":{}}}",
            c.json,
            jstr(&zlist(&c.obs)),
            c.oracle.as_deref().map(jstr).unwrap_or_else(|| "null".into()),
            c.known.as_deref().map(jstr).unwrap_or_else(|| "null".into()),
        );
        for t in &c.tags {
            *dist.entry(t.clone()).or_default() += 1;
        }
        if c.nontrivial {
            distinct.insert(c.coq.clone());
        }
        if c.oracle.is_some() {
            if c.known.is_some() {
                known_fail += 1;
            } else {
                oracle_fail += 1;
            }
        }
    }
    fs::write(format!("{dir}/impl.jsonl"), j).unwrap();
    let mut s = String::from("{");
    let _ = write!(
        s,
        "\"property\":{},\"cases\":{},\"shards\":{},\"distinct_nontrivial\":{},\"oracle_failures\":{},\"known_failures\":{},\"distribution\":{{",
        jstr(spec.prop),
        cases.len(),
        shard,
        distinct.len(),
        oracle_fail,
        known_fail
    );
    for (i, (k, n)) in dist.iter().enumerate() {
        if i > 0 {
            s.push(',');
        }
        let _ = write!(s, "{}:{}", jstr(k), n);
    }
    s.push('}');
    for (k, val) in extra {
        let _ = write!(s, ",{}:{}", jstr(k), val);
    }
    s.push('}');
    fs::write(format!("{dir}/summary.json"), s).unwrap();
}

//! Output plumbing shared by all property drivers.
//!
//! Every driver produces a list of `Case`s. For each: the case as a Coq term, the
//! implementation's observation canonicalised to a list of integers, a human readable JSON
//! rendering, the verdict of the property oracle and a set of tags used for the measured
//! input distribution. `write_all` shards them into `cases_<k>.v` files (evaluated by coqc
//! with `vm_compute`) plus `impl.jsonl` and `summary.json`.

use std::collections::BTreeMap;
use std::fmt::Write as _;
use std::fs;

pub struct Case {
    /// The case as a Coq term of the property's case type.
    pub coq: String,
    /// Implementation observation (compared with the model's run of `coq`).
    pub obs: Vec<i128>,
    /// JSON rendering of the case for replay files and evidence samples.
    pub json: String,
    /// `None` = the oracle found nothing wrong; `Some(what)` = the property fails here.
    pub oracle: Option<String>,
    /// Known-finding class the oracle failure falls in (if any).
    pub known: Option<String>,
    /// Tags for the distribution report.
    pub tags: Vec<String>,
    /// Non-trivial by the property's stated rule.
    pub nontrivial: bool,
}

pub struct Spec<'a> {
    pub prop: &'a str,
    /// Coq modules to import in the generated files.
    pub imports: &'a [&'a str],
    /// Name of the Coq function `case -> list Z`.
    pub run_fn: &'a str,
    /// Coq type of a case.
    pub case_ty: &'a str,
    pub shard: usize,
}

pub fn zlist(xs: &[i128]) -> String {
    let mut s = String::from("[");
    for (i, x) in xs.iter().enumerate() {
        if i > 0 {
            s.push_str("; ");
        }
        if *x < 0 {
            let _ = write!(s, "({x})");
        } else {
            let _ = write!(s, "{x}");
        }
    }
    s.push(']');
    s
}

pub fn jstr(s: &str) -> String {
    let mut o = String::from("\"");
    for c in s.chars() {
        match c {
            '"' => o.push_str("\\\""),
            '\\' => o.push_str("\\\\"),
            '\n' => o.push_str("\\n"),
            c if (c as u32) < 0x20 => {
                let _ = write!(o, "\\u{:04x}", c as u32);
            }
            c => o.push(c),
        }
    }
    o.push('"');
    o
}

pub fn write_all(dir: &str, spec: &Spec<'_>, cases: &[Case], extra: &[(&str, String)]) {
    // Sharded Coq files.
    let mut shard = 0;
    let indexed: Vec<(usize, &Case)> = cases.iter().enumerate().filter(|(_, c)| !c.coq.is_empty()).collect();
    for chunk in indexed.chunks(spec.shard.max(1)) {
        let mut v = String::new();
        for m in spec.imports {
            let _ = writeln!(v, "From A10 Require Import {m}.");
        }
        v.push_str("From A10 Require Import Base.Run.\nOpen Scope Z_scope.\n");
        let _ = writeln!(v, "Definition cases : list (Z * {} * list Z) := [", spec.case_ty);
        for (i, (idx, c)) in chunk.iter().enumerate() {
            let sep = if i + 1 == chunk.len() { "" } else { ";" };
            let _ = writeln!(v, "  ({}, ({}), {}){}", idx, c.coq, zlist(&c.obs), sep);
        }
        v.push_str("].\n");
        let _ = writeln!(v, "Eval vm_compute in (mismatches {} cases).", spec.run_fn);
        fs::write(format!("{dir}/cases_{shard}.v"), v).unwrap();
        shard += 1;
    }
    // Per-case JSON lines.
    let mut j = String::new();
    let mut dist: BTreeMap<String, usize> = BTreeMap::new();
    let mut distinct = std::collections::BTreeSet::new();
    let mut oracle_fail = 0;
    let mut known_fail = 0;
    for (i, c) in cases.iter().enumerate() {
        let _ = writeln!(
            j,
            "{{\"i\":{i},\"case\":{},\"impl_obs\":{},\"oracle\":{},\"known\":{}}}",
            c.json,
            jstr(&zlist(&c.obs)),
            c.oracle.as_deref().map(jstr).unwrap_or_else(|| "null".into()),
            c.known.as_deref().map(jstr).unwrap_or_else(|| "null".into()),
        );
        for t in &c.tags {
            *dist.entry(t.clone()).or_default() += 1;
        }
        if c.nontrivial {
            distinct.insert(c.coq.clone());
        }
        if c.oracle.is_some() {
            if c.known.is_some() {
                known_fail += 1;
            } else {
                oracle_fail += 1;
            }
        }
    }
    fs::write(format!("{dir}/impl.jsonl"), j).unwrap();
    let mut s = String::from("{");
    let _ = write!(
        s,
        "\"property\":{},\"cases\":{},\"shards\":{},\"distinct_nontrivial\":{},\"oracle_failures\":{},\"known_failures\":{},\"distribution\":{{",
        jstr(spec.prop),
        cases.len(),
        shard,
        distinct.len(),
        oracle_fail,
        known_fail
    );
    for (i, (k, n)) in dist.iter().enumerate() {
        if i > 0 {
            s.push(',');
        }
        let _ = write!(s, "{}:{}", jstr(k), n);
    }
    s.push('}');
    for (k, val) in extra {
        let _ = write!(s, ",{}:{}", jstr(k), val);
    }
    s.push('}');
    fs::write(format!("{dir}/summary.json"), s).unwrap();
}

// ---------------------------------------------------------------------------------------------
// Crash-isolated, parallel case execution: cases are computed in forked worker processes so that
// an abort or a segmentation fault in the code under test costs one case, not the whole run.

const FS: char = '\x1f';
const RS: char = '\x1e';
const GS: char = '\x1d';

fn ser(c: &Case) -> String {
    let obs: Vec<String> = c.obs.iter().map(|x| x.to_string()).collect();
    format!(
        "{}{FS}{}{FS}{}{FS}{}{FS}{}{FS}{}{FS}{}",
        c.coq,
        obs.join(","),
        c.json,
        c.oracle.as_deref().map(|s| format!("S{s}")).unwrap_or_else(|| "N".into()),
        c.known.as_deref().map(|s| format!("S{s}")).unwrap_or_else(|| "N".into()),
        c.tags.join(&GS.to_string()),
        c.nontrivial as u8
    )
}

fn de(s: &str) -> Option<Case> {
    let f: Vec<&str> = s.split(FS).collect();
    if f.len() != 7 {
        return None;
    }
    let opt = |x: &str| if let Some(r) = x.strip_prefix('S') { Some(r.to_string()) } else { None };
    Some(Case {
        coq: f[0].to_string(),
        obs: if f[1].is_empty() { vec![] } else { f[1].split(',').map(|x| x.parse().unwrap()).collect() },
        json: f[2].to_string(),
        oracle: opt(f[3]),
        known: opt(f[4]),
        tags: if f[5].is_empty() { vec![] } else { f[5].split(GS).map(|x| x.to_string()).collect() },
        nontrivial: f[6] == "1",
    })
}

/// Compute `f(i)` for `i in 0..n` in `workers` forked processes. A case whose process dies is
/// reported as an oracle failure (with an empty Coq term: it is left out of the model files).
pub fn run_forked(dir: &str, n: usize, workers: usize, f: &dyn Fn(usize) -> Case) -> Vec<Case> {
    use std::io::Write as _;
    if let Ok(only) = std::env::var("A10H_ONLY") {
        // Debugging aid: run a single case in this process.
        let i: usize = only.parse().expect("A10H_ONLY=<index>");
        return vec![f(i)];
    }
    let workers = workers.max(1).min(n.max(1));
    let mut results: Vec<Option<Case>> = (0..n).map(|_| None).collect();
    // (worker, next index to run)
    let mut pending: Vec<(usize, usize)> = (0..workers).map(|w| (w, w)).collect();
    let mut round = 0;
    while !pending.is_empty() {
        round += 1;
        let mut children = Vec::new();
        for &(w, start) in &pending {
            let path = format!("{dir}/.worker_{w}_{round}");
            let pid = unsafe { libc::fork() };
            assert!(pid >= 0, "fork failed");
            if pid == 0 {
                let mut file = fs::File::create(&path).unwrap();
                let mut i = start;
                while i < n {
                    let _ = write!(file, "B{i}{RS}");
                    let _ = file.flush();
                    let c = f(i);
                    let _ = write!(file, "C{i}{FS}{}{RS}", ser(&c));
                    let _ = file.flush();
                    i += workers;
                }
                unsafe { libc::_exit(0) };
            }
            children.push((w, start, pid, path));
        }
        pending.clear();
        for (w, start, pid, path) in children {
            let mut status = 0;
            unsafe { libc::waitpid(pid, &mut status, 0) };
            let text = fs::read_to_string(&path).unwrap_or_default();
            let _ = fs::remove_file(&path);
            let mut begun: Option<usize> = None;
            for rec in text.split(RS) {
                if let Some(i) = rec.strip_prefix('B') {
                    begun = i.parse().ok();
                } else if let Some(rest) = rec.strip_prefix('C') {
                    if let Some((i, body)) = rest.split_once(FS) {
                        if let (Ok(i), Some(c)) = (i.parse::<usize>(), de(body)) {
                            results[i] = Some(c);
                            if begun == Some(i) {
                                begun = None;
                            }
                        }
                    }
                }
            }
            let clean = libc::WIFEXITED(status) && libc::WEXITSTATUS(status) == 0;
            if !clean {
                let i = begun.unwrap_or(start);
                let how = if libc::WIFSIGNALED(status) {
                    format!("signal {}", libc::WTERMSIG(status))
                } else {
                    format!("exit status {}", libc::WEXITSTATUS(status))
                };
                if i < n && results[i].is_none() {
                    results[i] = Some(Case {
                        coq: String::new(),
                        obs: vec![],
                        json: format!("{{\"case_index\":{i},\"note\":\"regenerate with the same seed\"}}"),
                        oracle: Some(format!("the process running this case died ({how}): memory corruption or an abort inside the code under test")),
                        known: None,
                        tags: vec!["crashed".into()],
                        nontrivial: false,
                    });
                }
                if i + workers < n {
                    pending.push((w, i + workers));
                }
            }
        }
    }
    results.into_iter().flatten().collect()
}

#!/usr/bin/env python3
"""Regenerate the table of seeded changes (seeded/*/meta.json) in DESIGN.md §11.1 (between the
SEED-TABLE markers), or print it with --print."""
import json, glob, sys, re, os
ROOT = os.path.dirname(os.path.dirname(os.path.abspath(__file__)))
rows = []
n = dict(total=0, first_input=0, first_tie=0, missed=0, after_input=0, after_tie=0)
for f in sorted(glob.glob(os.path.join(ROOT, 'seeded/*/meta.json'))):
    m = json.load(open(f)); name = f.split('/')[-2]
    c = m['check']; a = m.get('check_after_strengthening')
    n['total'] += 1
    if c['detected'] and c['with_failing_input']: first = 'VIOLATION, failing input'; n['first_input'] += 1
    elif c['detected']: first = 'VIOLATION, no-failing-input-found'; n['first_tie'] += 1
    else: first = '**missed**'; n['missed'] += 1
    if not a: after = ''
    else:
        if a['detected'] and a.get('with_failing_input'): verdict = 'VIOLATION, failing input'; n['after_input'] += 1
        elif a['detected']: verdict = 'VIOLATION, no-failing-input-found'; n['after_tie'] += 1
        else: verdict = 'still not found'
        parts = a['what_changed'].split(';')
        after = verdict + ' — ' + (parts[1].strip() if len(parts) > 1 else parts[0].strip())
    s = (m.get('summary') or '').replace('|', '/').replace('\n', ' ')
    nd = (m.get('needs') or '').replace('|', '/').replace('\n', ' ')
    if len(s) > 200: s = s[:197] + '...'
    if len(nd) > 140: nd = nd[:137] + '...'
    rows.append("| %s | %s | %s | %s | %s |" % (name, s, nd, first, after))
final = dict(input=0, tie=0, missed=0)
for f in sorted(glob.glob(os.path.join(ROOT, 'seeded/*/meta.json'))):
    m = json.load(open(f)); c = m['check']; a = m.get('check_after_strengthening') or c
    rc = os.path.join(os.path.dirname(f), 'recheck.json')
    if os.path.exists(rc):
        # the outcome of bin/seed-recheck: the checks as they are now, against the change
        a = json.load(open(rc))
    if a['detected'] and a.get('with_failing_input'): final['input'] += 1
    elif a['detected']: final['tie'] += 1
    else: final['missed'] += 1
head = ["%d seeded changes kept (each confirmed by me: its demonstration fails with the change and passes without, the repository's "
        "own 415 tests pass with it). First run of the property's quick check: %d reported with a failing input, %d reported by the "
        "broken tie only (`no-failing-input-found`), %d missed. Every missed one (and some of the tie-only ones) led to a strengthening "
        "of the check (last column, §12). All of them were run again against the checks as they stood after round 5, and after rounds 6 and 7 every seed of the "
        "properties whose checks or drivers changed in those rounds (C02, C04, C06, C07, C11, C12, C13, C14, and C01-f) once more (`bin/seed-recheck`, `seeded/*/recheck.json`; the "
        "round-6 and round-7 seeds of the other properties stand with their first run): %d reported with a failing input, %d by the broken tie only (the reason "
        "is in the seed's meta.json `note`), %d missed." % (n['total'], n['first_input'], n['first_tie'], n['missed'], final['input'], final['tie'], final['missed']),
        "",
        "| seed | what was changed (from the sub-agent's meta.json) | needs | first run of the check | after strengthening |",
        "|------|-----------------------------------------------------|-------|------------------------|---------------------|"]
text = "\n".join(head + rows)
if '--print' in sys.argv:
    print(text); sys.exit(0)
p = os.path.join(ROOT, 'DESIGN.md'); t = open(p).read()
b, e = '<!-- SEED-TABLE-BEGIN -->', '<!-- SEED-TABLE-END -->'
assert b in t and e in t
t = t[:t.index(b) + len(b)] + "\n" + text + "\n" + t[t.index(e):]
open(p, 'w').write(t)
print("table written: %d rows" % len(rows))

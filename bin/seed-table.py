#!/usr/bin/env python3
"""Print the markdown table of seeded changes (seeded/*/meta.json) for DESIGN.md §11.1."""
import json, glob
print("| seed | what was changed (one line, from the sub-agent) | needs | first run of the check | after strengthening |")
print("|------|--------------------------------------------------|-------|------------------------|---------------------|")
for f in sorted(glob.glob('/verif/seeded/*/meta.json')):
    m = json.load(open(f)); name = f.split('/')[-2]
    c = m['check']; a = m.get('check_after_strengthening')
    first = 'VIOLATION with failing input' if c['detected'] and c['with_failing_input'] else ('VIOLATION, no-failing-input-found' if c['detected'] else '**missed**')
    if not a: after = ''
    else:
        verdict = ('VIOLATION with failing input' if a.get('with_failing_input') else 'VIOLATION, no-failing-input-found') if a['detected'] else 'still not found'
        parts = a['what_changed'].split(';')
        after = verdict + ' — ' + (parts[1].strip() if len(parts) > 1 else parts[0].strip())
    s = (m.get('summary') or '').replace('|', '/').replace('\n', ' ')
    n = (m.get('needs') or '').replace('|', '/').replace('\n', ' ')
    if len(s) > 230: s = s[:227] + '...'
    if len(n) > 160: n = n[:157] + '...'
    print("| %s | %s | %s | %s | %s |" % (name, s, n, first, after))

#!/usr/bin/env python3
"""bin/manifest_add.py <Cxx> '<level text>' '<level note>' '<technique>' — add/replace a check entry and
drop the property from not_applicable."""
import json, sys
pid, text, note, tech = sys.argv[1:5]
m = json.load(open('/verif/MANIFEST.json'))
m['checks'] = [c for c in m['checks'] if c['property_id'] != pid]
m['checks'].append({
    "property_id": pid,
    "quick_cmd": "bin/check %s --tier quick" % pid,
    "thorough_cmd": "bin/check %s --tier thorough" % pid,
    "evidence_file": "evidence/%s.json" % pid,
    "replay_cmd_template": "bin/check %s --replay {path}" % pid,
    "engine": "coq",
    "level_claimed": {"category": "proof", "text": text, "design_ref": "DESIGN.md §6 %s" % pid},
    "level_note": note,
    "technique": tech,
})
m['checks'].sort(key=lambda c: c['property_id'])
m['not_applicable'] = [n for n in m.get('not_applicable', []) if n['property_id'] != pid]
for e in m.get('engines', []):
    if pid not in e['serves_properties']:
        e['serves_properties'].append(pid); e['serves_properties'].sort()
json.dump(m, open('/verif/MANIFEST.json', 'w'), indent=1)

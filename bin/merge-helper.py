#!/usr/bin/env python3
"""Resolve the usual conflicts after `git merge wt_xxx`: props.py / known_findings.json take ours plus the
branch's new entries; _CoqProject and mod.rs keep both sides."""
import re, json, ast, subprocess, sys
branch = sys.argv[1]; pid = sys.argv[2]
def show(path): return subprocess.run(['git','-C','/verif','show','%s:%s'%(branch,path)],capture_output=True,text=True).stdout
conf = subprocess.run(['git','-C','/verif','diff','--name-only','--diff-filter=U'],capture_output=True,text=True).stdout.split()
for f in conf:
    p='/verif/'+f
    if f in ('bin/props.py','known_findings.json','bin/gen_consts.py'):
        subprocess.run(['git','-C','/verif','checkout','--ours',f])
    else:
        s=open(p).read()
        s=re.sub(r"<<<<<<< HEAD\n(.*?)=======\n(.*?)>>>>>>> [^\n]*\n", lambda m: m.group(1)+m.group(2), s, flags=re.S)
        open(p,'w').write(s); print("kept both:",f)
# props entry
ours=open('/verif/bin/props.py').read()
if '"%s": dict('%pid not in ours and '"%s": _ops_entry'%pid not in ours:
    src=show('bin/props.py'); i=src.index('    "%s": dict('%pid); k=src.index('dict(',i)+4; depth=0
    for pos in range(k,len(src)):
        if src[pos]=='(': depth+=1
        elif src[pos]==')':
            depth-=1
            if depth==0: j=pos+1; break
    ours=ours.replace("PROPS = {\n","PROPS = {\n"+src[i:j]+",\n",1); open('/verif/bin/props.py','w').write(ours); print("props entry added")
ast.parse(open('/verif/bin/props.py').read())
a=json.load(open('/verif/known_findings.json')); b=json.loads(show('known_findings.json'))
have={f['id'] for f in a['findings']}
for f in b['findings']:
    if f['id'] not in have: a['findings'].append(f); print('finding added',f['id'])
json.dump(a,open('/verif/known_findings.json','w'),indent=1)
# gen_consts extra names
go=open('/verif/bin/gen_consts.py').read(); gb=show('bin/gen_consts.py')
names=set(re.findall(r'"([A-Z][A-Z0-9_]+)"',go)); extra=[n for n in re.findall(r'"([A-Z][A-Z0-9_]+)"',gb) if n not in names]
if extra: print("NOTE: branch gen_consts has extra names:",extra)

"""Per-property configuration for bin/check."""

PROPS = {
    "C05": dict(
        driver="C05",
        model="Model/CqRing.v",
        run_fn="run_cqcase",
        release_too=True,
        theorems=["C05_cq_exactly_once_in_order", "C05_cq_reads_published_only",
                  "C05_cq_kernel_never_overwrites_unread", "C05_cq_poll_drains_ring",
                  "C05_cq_internal_never_dispatched"],
        rule="one splitmix64 stream per case: CQ of 1..16 entries on the simulated kernel, both ring counters "
             "starting at boundary values (0, 2^31-1.., 2^32-k) or random, 1..20 real write operations held in "
             "flight, a script of postings (operation completions in any order with unique results, user_data 0-3 "
             "bookkeeping entries, IORING_CQE_F_SKIP entries pointing at a trap) between polls, before the k-th "
             "operation entry inside a poll and before the head store; overflow list when the ring is full; "
             "non-trivial = at least 2 completions posted; distinct by the Coq case term",
        assumptions=["kernel contract K3 (CQEs written only into free slots, published by the tail, NODROP overflow) "
                     "as implemented by the simulated kernel",
                     "CQ sizes below 2^32 entries (the kernel caps them far lower)",
                     "sequentially consistent interleaving of kernel postings with the poll loop at hook-B points"],
        trusted=["simulated kernel harness/src/simk.rs (twin of the kernel contract K1-K8)",
                 "a10 verif hooks A/B (src/verif.rs)"],
    ),
    "C14": dict(
        driver="C14",
        model="Model/BufTraits.v",
        run_fn="run_bcase",
        theorems=["C14_exposed_pairs_in_bounds", "C14_reported_lengths_agree",
                  "C14_set_init_appends_in_order", "C14_limit_never_exceeded"],
        rule="one splitmix64 stream per case (VERIF_SEED, index): family in {Buf x 12 provided types, BufMut, "
             "BufSlice/BufMutSlice as arrays and tuples of arity 1..8}, lengths/capacities with empty and full "
             "buffers, limit in {none, <= total, 2^32+k, k*2^32+j, boundary pool incl. usize::MAX}, 1..5 "
             "query/set_init operations with the bytes written through the exposed iovecs first; non-trivial = "
             "some capacity > 0 and (a limit, arity > 1 or a set_init); distinct by the Coq case term",
        assumptions=["buffers shorter than 2^32 bytes (hypothesis wf; larger buffers: known finding H17)",
                     "Vec/Box/Arc/String allocation behaviour is std's; addresses are canonicalised to offsets"],
        trusted=["Rust std allocation behaviour of Vec/Box/Arc/String (modelled as base/len/cap triples)"],
    ),
}

"""Per-property configuration for bin/check."""


RACE_ASSUMPTIONS = [
    "two-thread half (Model/OpRace.v, driver C03R): sequentially consistent interleaving of the code between hook-B "
    "scheduling points; the model's steps ARE those segments and every executed interleaving is replayed step by "
    "step (a scheduling point the model does not expect, or a missing one, is a mismatch), so the atomicity of "
    "API calls with respect to completion processing is no longer assumed for the race theorems: it is derived "
    "from the per-operation mutex, the submission lock and the blocked-futures mutex as modelled",
    "OpRace kinds: single-shot, multishot (result queue, every completion wakes, stream end) and two-step "
    "(zero-copy send: result with F_MORE, then notification) operations with result values and ghost ledgers of "
    "posted / dispatched / handed-out results; simplifications: NO restarts (the EINTR/ECANCELED re-issue loop and "
    "error results of live operations are not modelled: the driver scripts non-negative results, -ECANCELED only "
    "reaches dropped operations), Ring::poll with a zero timeout in the default ring mode, nobody calls "
    "SubmissionQueue::wake, ring counters abstracted to ghost counters and FIFO lists (their mechanics are "
    "C04/C05), the completion queue never overflows; kernel K1, K2, K4: auto-completion (one completion, result 7, "
    "when consumed) or a script per request (any list of completions: result, F_MORE, F_NOTIF) posted one per "
    "kernel step while the request is in flight, nothing after a completion without F_MORE; a winning "
    "ASYNC_CANCEL posts one final -ECANCELED also for a two-step request (the simulated kernel's non-strict "
    "cancellation; Linux posts result + notification)",
    "OpRace API usage (progs_ok): an operation is used by one thread and dropping it is its last call "
    "(Rust's ownership rules); the blocked-futures mutex is never held across a scheduling point (true of the "
    "code as replayed: the model has no holder for it and would see an unexpected LOCK_SPIN)",
]
RACE_TRUSTED = ["baton scheduler harness/src/sched.rs (execution log, segment observer) and the C03R driver's "
                "attribution of wake-ups, kernel-log entries and frees to executed segments"]


def _ops_entry(pid, theorems, focus, extra=None):
    d = _ops_entry0(pid, theorems, focus)
    if extra:
        d["also_drivers"] = extra.get("also_drivers", [])
        d["assumptions"] = d["assumptions"] + extra.get("assumptions", [])
        d["trusted"] = d["trusted"] + extra.get("trusted", [])
        d["model"] = d["model"] + extra.get("model", "")
    return d


def _ops_entry0(pid, theorems, focus):
    return dict(
        driver=pid,
        model="Model/OpState.v",
        run_fn="run_opcase",
        theorems=theorems,
        rule="one splitmix64 stream per case: 1..4 real operations (read into a heap buffer, zero-copy send with two "
             "completions, multishot accept) on a simulated ring with 1..8 submission slots and random 32-bit start "
             "counters; 4..26 events drawn from {poll with the same or a fresh waker, drop of the future, Ring::poll, "
             "kernel completion: success / short / error / EINTR / ECANCELED / more / notif}, cancellation winning or "
             "losing per operation; event weights biased towards " + focus + "; non-trivial = at least 4 events incl. a "
             "kernel completion; distinct by the Coq case term",
        assumptions=["kernel contract K1, K2, K4 (DESIGN.md §5) as implemented by the simulated kernel",
                     "API calls are atomic with respect to completion processing (per-operation mutex held across "
                     "submission and waker store; proved for the futures || Ring::poll race on the small-step model OpRace and "
                     "replayed by driver C03R, which the checks of C02, C03 and C06 run)",
                     "the completion queue is large enough (256) that no completion waits on the overflow list"],
        trusted=["simulated kernel harness/src/simk.rs", "tracking allocator harness/src/alloc.rs (which heap block "
                 "an address belongs to; frees of operation states)", "a10 verif hooks A/B"],
    )

PROPS = {
    # Internal driver (not a property of MANIFEST.json): run by `bin/check C03` and `bin/check C06` through
    # also_drivers; `follow_tier` makes it run at the tier of the check that includes it.
    "C03R": dict(
        driver="C03R",
        internal=True,
        follow_tier=True,
        model="Model/OpRace.v",
        run_fn="run_racecase",
        theorems=[],
        rule="one splitmix64 stream per case (VERIF_SEED, index): ring with 1, 2 or 4 submission slots on the simulated "
             "kernel (random 32-bit start counters), 2..5 operations owned by 1 or 2 future threads; one case in five "
             "uses the auto-completing kernel with heap-buffer writes only, the others mix writes, multishot accepts "
             "(0..4 results with F_MORE, two times in three a final one; results = unique fake descriptors) and "
             "zero-copy sends (result with F_MORE + notification; 1 in 8 a single completion), cancellation winning "
             "or losing per operation, completions posted by a KERNEL THREAD under the scheduler (one scripted "
             "completion of a request in flight per step = the model's K events); a ring thread making 1..5 "
             "Ring::poll(0) calls; future threads run 2..4 rounds: poll when never polled or woken, ask a stream for "
             "its next item, re-poll unwoken with the same or a fresh waker (0/20/50 %), drop mid-race "
             "(none/25/66 %), drop after Ready / end of stream; random schedule with preemption probability "
             "10..60 % per hook-B point over 500 decisions; then a few more kernel steps and the ring alone "
             "(futures + 2 + parked wakers polls; oracle: every pending future that is READY - final completion "
             "posted; stream: a posted result not handed out - or parked has had its latest waker invoked since "
             "its last poll), a SECOND race (woken futures polled again while more completions are posted and "
             "dispatched), the kernel finishing the scripts, the ring alone and the oracle again, the remaining "
             "futures dropped, two polls, the kernel, two polls, the ring dropped (oracles: every started state "
             "freed exactly once, no double free, no state freed while the kernel has the request in flight, at "
             "most one cancel per dropped operation; every value handed out is the next result the kernel posted "
             "for that very request, a single-shot / two-step operation resolves after its final completion with "
             "its first non-notification result, a stream ends once after everything posted was handed out); the "
             "executed interleaving (all phases) is replayed on Model/OpRace.v: per segment the hook-point code, "
             "poll results with values, wake-ups in order, consumed submissions, frees; non-trivial = at least "
             "one preemption; distinct by the Coq case term",
        assumptions=RACE_ASSUMPTIONS,
        trusted=RACE_TRUSTED + ["simulated kernel harness/src/simk.rs", "tracking allocator harness/src/alloc.rs",
                                "a10 verif hooks A/B"],
    ),
    "C07": dict(
        driver="C07",
        model="Model/FdTable.v",
        run_fn="run_fdcase",
        theorems=["C07_fd_word_roundtrip", "C07_close_encoding", "C07_descriptor_closed_exactly_once",
                  "C07_delivered_to_abandoned_op_refuted", "C07_delivered_to_finished_unpolled_op_refuted",
                  "C07_close_future_never_started_refuted", "C07_all_closed_at_rest_refuted",
                  "C07_pipe_fallback_wraps_regular", "C07_pipe_fallback_only_in_poll",
                  "C07_pipe_fallback_requested_kind_refuted", "C07_close_restarted_after_eintr_h30_refuted"],
        rule="one splitmix64 stream per case (VERIF_SEED, index) on the simulated kernel: ring with 1, 2 or 4 submission "
             "slots, random 32-bit start counters, no direct descriptor table or one of 2, 4 or 8 slots; 6..40 events "
             "from one of four weight profiles (balanced / many drops between ring polls / futures abandoned / "
             "explicit closes) drawn from {AsyncFd::from_raw_fd, stdin/stdout/stderr wrapper, new creator future: "
             "open (built four ways: kind() first or last among the builder calls, open_temp_file, fs::open_file), "
             "socket, pipe (regular or .kind(Direct); an oracle independent of the model compares the builder's kind "
             "with the table the submission asks the kernel to allocate from), accept and multishot_accept on any live descriptor, "
             "to_direct_descriptor on a regular one, to_file_descriptor on a direct one; poll of a creator; drop of a "
             "creator in any state; kernel completion of an in-flight creator with the lowest free number of the table "
             "the submission asks for (so numbers are reused after a close; multishot with or without F_MORE); kernel "
             "error (EMFILE, ENFILE, EACCES, ECONNRESET, ENXIO without a table); for an in-flight pipe (regular or "
             "direct request) in half of the kernel answers EINVAL = no IORING_OP_PIPE: the poll of the live future "
             "then runs the real pipe2(2), whose two descriptors are read off the process descriptor table (fcntl "
             "F_GETFD before/after that poll), written into the KPipeInval event after the fact, entered in the "
             "kernel-side oracle table as regular descriptors of that operation and really closed by the simulated "
             "kernel when it executes their CLOSE / sees close(2) (about 20% of the cases contain the refusal; the "
             "distribution tags pipe-fallback* count requested kind, pipe2 ran / future gone, and how the two AsyncFds "
             "were closed: drop with room, drop with the queue full, close()); Ring::poll; drop of an AsyncFd (queue "
             "with room or full); close(); poll / drop of a close future before its first poll, with a full queue, "
             "after submission, after completion; one CLOSE in four of a close() future is answered with EINTR, the "
             "descriptor being closed all the same}; every history ends with an orderly wind-down (take arrived "
             "results, drop futures and descriptors, two ring polls) while the ring exists, after which the process "
             "descriptor table is compared with the oracle's table; non-trivial = at least "
             "one descriptor issued and one closed; distinct by the Coq case term",
        assumptions=["descriptor numbers returned by the kernel are non-negative i32 values (guard fresh: fd < 2^31), "
                     "not open at that moment, never a standard stream, and direct slots lie inside the registered table",
                     "a future borrows its AsyncFd: an AsyncFd is not dropped or closed while a future made from it is "
                     "alive (the borrow checker's rule; events breaking it are no-ops in the model and are not generated)",
                     "IORING_OP_CLOSE executes when the kernel consumes it and an ASYNC_CANCEL never wins against a "
                     "creator or a close (the request stays in flight; a cancelled creator would return no descriptor)",
                     "kernel errors are final and are not EINTR / ECANCELED (restart: C09); EINVAL is modelled for pipe "
                     "(event KPipeInval: PipeOp::fallback calls pipe2(2) inside the poll of the live future and wraps "
                     "both descriptors as REGULAR whatever kind was requested — the documented deviation from 'of the "
                     "requested kind', theorem C07_pipe_fallback_wraps_regular) and not generated for the other "
                     "creators (a10 reports Unsupported: an error without a descriptor)",
                     "pipe2(2) returns two distinct numbers that are not open in the process at that moment, non-negative "
                     "i32, not standard streams (guard all_fresh at the time of the call; other numbers stand for a "
                     "failing pipe2)",
                     "the completion queue (256 entries) never overflows; API calls are atomic with respect to "
                     "completion processing",
                     "scope: while the Ring exists (what is dropped after its Ring is H13 / C12)",
                     "known findings H12 and H19 are excluded by name (delivered_to_abandoned_op, "
                     "close_future_never_started) with witnesses"],
        trusted=["simulated kernel harness/src/simk.rs (consumes the queue in order, routes close(2) on issued numbers "
                 "through hook A, records REGISTER_FILES_UPDATE; really closes the registered real pipe2 descriptors "
                 "when it executes a CLOSE naming them or sees close(2) on them)",
                 "the real kernel's pipe2(2) and fcntl(F_GETFD) (the driver's reading of the process descriptor table)",
                 "a10 verif hook A (src/verif.rs): enter, register, close",
                 "the io_uring ABI reading of CLOSE (file_index = 0: regular sqe.fd, else slot file_index-1; both set: "
                 "EINVAL), stated twice independently: kernel_close_target in coq/Model/FdTable.v and "
                 "oracle_close_sqe in harness/src/props/c07.rs",
                 "the Debug rendering of AsyncFd for the number of a direct descriptor (cross-checked against as_fd() "
                 "for regular ones and against the close it later produces)"],
    ),
    "C08": dict(
        driver="C08",
        model="Model/BufPool.v",
        run_fn="run_bpcase",
        release_too=True,
        theorems=["C08_pool_partition_invariant", "C08_ring_slot_free_on_release", "C08_release_returns_own_id",
                  "C08_tail_wrap_safe", "C08_all_available_when_quiescent", "C08_lost_only_when_abandoned",
                  "C08_all_available_h11_refuted", "C08_pool_partition_h26_refuted"],
        rule="one splitmix64 stream per case (VERIF_SEED, index) on the simulated kernel: a real ReadBufPool of 1, 2, 4 or 8 "
             "buffers of 1..64 bytes (1, 2 and 64 over-weighted) and up to 4 concurrent real pool operations "
             "(read(pool.get()), recv(pool.get()), multishot_read(pool), multishot_recv(pool)); 8..44 events drawn from "
             "{start an operation (cancellation winning or losing), kernel selects the buffer at the ring head for an "
             "in-flight request, stores min(len, buffer size) bytes of a per-completion pattern (len = 0, 1, size, beyond "
             "size, random) and completes with F_BUFFER | bid << 16 (+ F_MORE for multishot; -ENOBUFS when nothing is "
             "offered), kernel ends a request with 0 and no buffer, Ring::poll to quiescence, poll of the future/stream "
             "(obtaining a ReadBuf), truncate / extend_from_slice within the capacity, release(), drop of a ReadBuf (any "
             "order, repeated releases), drop of a future while in flight or with undelivered completions (one case in "
             "three), drop of the pool handle (one case in five)}; in two cases of five with >= 2 buffers one block in "
             "which two real threads release/drop 2..6 owning ReadBufs of the pool under the baton scheduler (preemption "
             "probability 10..60% at the hook-B points of release: lock of reregister_lock, tail store) while a kernel "
             "thread picks up to 3 buffers, the executed interleaving replayed step by step on the small-step part of "
             "the model; case 0 is the regression schedule of H26 (one thread drops the ReadBuf whose entry goes to ring "
             "slot 0 while the kernel selects twice between the entry write and the tail store); every 500th case (quick; "
             "every 2000th in the thorough tier) first runs 70 000..72 000 rounds of pick / poll / (release) / drop on a "
             "pool of two (multishot stream or one single-shot operation per round) so that the 16-bit tail wraps "
             "(checked by a checksum over every observation of every round); an epilogue ends every request, delivers every "
             "completion and drops every ReadBuf; non-trivial = at least one buffer delivered and released; distinct by "
             "the Coq case term",
        assumptions=["pool_size = 2^k with k <= 15 and buf_size > 0 (hypothesis params_ok; ReadBufPool::new asks for the first, "
                     "a zero buf_size makes release divide by zero)",
                     "kernel contract K5 as implemented by the harness: the kernel consumes ring entries in order from its "
                     "private head, only below the published tail (read at selection time from the last two bytes of "
                     "ring entry 0, as in the Linux ABI), writes only inside the selected entry's (address, "
                     "length) and reports the entry's bid in the completion; a request that finds nothing offered fails "
                     "with -ENOBUFS",
                     "the theorems are about the code after the repair of H26 (41f16c5: release writes addr/len/bid only); "
                     "what the code did before (entry write to slot 0 also zeroed the tail): C08_pool_partition_h26_refuted",
                     "sequentially consistent interleaving at the hook-B scheduling points of ReadBufPool::release (lock, "
                     "tail store); the Acquire/Release orderings themselves are not verified",
                     "a ReadBuf is released by one thread at a time (&mut self; enforced by the borrow checker, mirrored in "
                     "the model by owned.take())",
                     "all_available_when_quiescent holds under the clause 'no id was picked for an abandoned operation' "
                     "(lost = []), which C08_lost_only_when_abandoned discharges for every history that drops no future; "
                     "without the clause the statement is false: known finding H11, witness C08_all_available_h11_refuted",
                     "Arc reference counting of the shared pool (when the ring is unregistered and freed) is modelled, not "
                     "proved; operation state lifetimes are C06's subject"],
        trusted=["simulated kernel harness/src/simk.rs (provided-buffer ring registration, pbuf_pick / pbuf_available "
                 "16-bit head arithmetic) and the kernel side of pool reads in harness/src/props/c08.rs",
                 "baton scheduler harness/src/sched.rs (replays are exact: the model reports the scheduling point it "
                 "expects at every thread step and it is diffed)",
                 "a10 verif hooks A/B"],
    ),
    "C17": dict(
        driver="C17",
        model="Model/Inotify.v",
        run_fn="run_incase",
        theorems=["C17_events_decoded_exactly", "C17_reads_in_bounds", "C17_unnamed_padded_yields_nuls",
                  "C17_process_fuel_irrelevant", "C17_kernel_exact_pads", "C17_kernel_record_fits_buf",
                  "C17_kernel_record_aligned", "C17_event_valid_when_handed_out",
                  "C17_event_stable_until_next_read",
                  "C17_event_validity_h10_refuted", "C17_h10_overwritten_witness", "C17_h10_dangling_witness"],
        rule="one splitmix64 stream per case (VERIF_SEED, index): a real Watcher (real inotify_init1; 0..4 real "
             "inotify_add_watch calls through watch / watch_directory / watch_file on paths of a per-case temporary tree, "
             "spelled with and without trailing '/', '//', '/.', './', the same inode under two spellings) on a ring of the "
             "simulated kernel; a script of 0..6 READ completions: batches of 1..5 records or as many as fit 272 bytes, "
             "0-byte reads, failures (EINVAL, EBADF, EINTR, ENOMEM, EIO, EAGAIN, ECANCELED), then an end (0-byte read or "
             "failure) in 3 of 5 cases, else the last READ stays pending; records: 85% user-visible with any mask bits "
             "(single flags, flag|IN_ISDIR, 0, all ones, random u32), 10% IN_IGNORED (alone or with other bits incl. "
             "IN_Q_OVERFLOW), 5% IN_Q_OVERFLOW; descriptor = one returned by the kernel (5/6) or unknown (0, 9, 77, 1000, -5, "
             "i32::MIN, i32::MAX); names of length 0 (1/4), 1..15, 16, boundary lengths, 239..254, 255, uniform 1..255, from "
             "letters / printable ASCII / any byte but NUL and '/' / a fixed set incl. 0x80, 0xff, newline; padding = the "
             "kernel's (NUL + round up to 16) in 3 of 5 named records, else any of 0..31 that keeps the record 4-byte "
             "aligned (0 for no name); cookie 0 or random; 0..2 polls after the end; each event kept for 0/1/2/3 further "
             "polls or to the end and read again (Debug, file_path), kept references probed after drop(events) in 2 of 3 "
             "cases; non-trivial = at least one user-visible record or two records; distinct by the Coq case term",
        assumptions=["records are well formed (hypothesis wf_record): name of 0..255 bytes without NUL and '/', fields fit "
                     "i32/u32, and a record without a name has len = 0 (kernel_pads; inotify(7), fs/notify/inotify/"
                     "inotify_user.c round_event_name_len) - on the never-emitted shape (no name, len > 0) the code hands "
                     "out len NUL bytes as the name: C17_unnamed_padded_yields_nuls",
                     "every read completion carries whole records (read(2) on inotify never splits an event) in at most "
                     "the 272 bytes asked for",
                     "records keep the header 4-byte aligned (the kernel pads to 16): a debug build aborts on a misaligned "
                     "header, so the harness only generates aligned records; the model has no notion of alignment",
                     "64-bit usize: processed + 16 + len cannot wrap",
                     "the operation layer under fd.read reissues reads that fail with EINTR / ECANCELED and turns EINVAL into "
                     "an error of kind Unsupported without errno (src/io_uring/op.rs); modelled by op_restarts / op_errno",
                     "paths: PathBuf::push on Unix (a separator is added unless the watched path ends in one; a name "
                     "starting with '/' would replace it - excluded by wf_record)",
                     "watch descriptors map to the path of the most recent watch call that returned them (HashMap insert)",
                     "H10: what an outdated reference shows is modelled only while the buffer is allocated (the bytes of "
                     "the latest read over those of earlier ones); after the iterator ended or was dropped the model says "
                     "'dangling' and the harness confirms the block was freed by getting it back from the allocator"],
        trusted=["simulated kernel harness/src/simk.rs (READ completions scripted by the driver)",
                 "a10 verif hook A (src/verif.rs)",
                 "Linux inotify_init1 / inotify_add_watch on the running kernel (descriptor numbers only)",
                 "Event's Debug output as the public view of wd, mask and cookie"],
    ),
    "C13": dict(
        driver="C13",
        also_drivers=["C10", "C02"],   # composite futures (builder settings on every continuation) and the order/identity of
                                       # multishot results are exercised by the C10 and C02 drivers against their models
        model="Model/Encode.v + Model/ResultDecode.v",
        run_fn="run_c13case_fixed",
        theorems=["C13_encode_matches_abi_except_h20_h24", "C13_h20_splice_to_direct_swaps_tables",
                  "C13_h24_statx_direct_is_refused", "C13_encode_matches_abi_h20_refuted",
                  "C13_encode_matches_abi_h24_refuted", "C13_encode_matches_abi_fails",
                  "C13_fixed_file_iff_direct", "C13_alloc_and_cloexec_follow_requested_kind",
                  "C13_result_done_iff_success", "C13_result_errno_is_the_calls",
                  "C13_result_errno_reported_except_einval", "C13_result_einval_is_masked",
                  "C13_from_raw_roundtrip", "C13_fallback_same_descriptor", "C13_fallback_same_descriptor_regular",
                  "C13_fallback_direct_never_calls", "C13_fallback_direct_keeps_error",
                  "C13_fallback_repair_regular_unchanged", "C13_fallback_h21_refuted",
                  "C13_fallback_h21_every_direct_socket_fallback",
                  "C13_file_type_is_posix_macro", "C13_file_type_exclusive", "C13_permission_flags_are_mode_bits",
                  "C13_timestamp_matches_posix_except_h9", "C13_timestamp_h9_panics", "C13_timestamp_h9_refuted",
                  "C13_timestamp_matches_posix_fails", "C13_timestamp_fixed_matches_posix",
                  "C13_wait_status_matches_posix_except_h22", "C13_wait_status_h22_always_wrong",
                  "C13_wait_status_h22_refuted", "C13_wait_status_matches_posix_fails",
                  "C13_wait_status_fixed_matches_posix", "C13_opt_decode_matches_posix"],
        rule="one splitmix64 stream per case (VERIF_SEED, index); of every 20 cases 14 are encoding cases that walk "
             "the 42 public operations round-robin (read, read_vectored, write, write_vectored, multishot_read, "
             "splice_to/from, close, sync_all/sync_data, allocate, advise, truncate, metadata, open/open_temp_file via "
             "OpenOptions, create_dir, remove_file/dir, rename, socket, connect, bind, listen, accept, multishot_accept, "
             "send, send_to, send(_to)_vectored, recv, multishot_recv, recv_vectored/recv_from_vectored, recv_from, "
             "shutdown, socket_option x12 types, set_socket_option x7, local/peer_addr, pipe, wait, Signals::receive, "
             "mem::advise, Ring::pollable, to_direct_descriptor, to_file_descriptor, cancellation on drop), the "
             "descriptor kind alternating per round (regular AsyncFd / direct AsyncFd obtained through a scripted "
             "to_direct_descriptor), arguments from boundary pools and random values: offsets {not set, 0, 1, 511, 4096, "
             "2^31, 2^32, 2^63-1, 2^63, 2^64-2, 2^64-1, random}, lengths {0, 1, 2..16, 17..300, 4096, random}, every "
             "subset of the public flag constants, 5 Buf types, Vec and ReadBufPool buffers, 1..8 vectored buffers and a "
             "mixed tuple, IPv4/IPv6/SocketAddr/Unix path/abstract/unnamed/NoAddress, builder methods in random order; "
             "the operation is polled once on the simulated kernel and the consumed SQE plus everything the kernel would "
             "read through its pointers (iovecs, msghdr, paths, addresses, length cells) is compared with the model; the "
             "oracle decodes the SQE with a pinned ABI table and compares with the arguments passed. 2 cases script a "
             "struct statx (7 file types + invalid, all permission bits, times incl. negative, i64 bounds), 1 a siginfo "
             "(6 si_codes, exit codes 0..255, signals 1..64), 1 a socket option value or a new-descriptor result, 2 a "
             "result word (success values, 14 errnos incl. EINTR/ECANCELED/EINVAL/EOPNOTSUPP/ENOSYS) for the default and "
             "the 6 special fallbacks (socket fallbacks against a real socket of the process). Thorough adds a "
             "differential run on the real kernel (pread/pwrite at offsets, statx, socket options, socket names; regular "
             "and direct) against libc on identical fixtures; non-trivial = every case that ran; distinct by the Coq term",
        assumptions=["x86-64 Linux ABI: struct layouts (io_uring_sqe 64 bytes, msghdr 56, iovec 16, statx 256, siginfo 128) "
                     "and the constant values stated in Model/Encode.v and Model/ResultDecode.v (asserted against libc at start-up)",
                     "abi_decode (coq/Model/Encode.v) and the harness's abi_call are the trusted statement of what an SQE means, "
                     "written from io_uring_enter(2), liburing's io_uring_prep_* and the prep functions of io_uring/*.c; "
                     "IOSQE_ASYNC and IOSQE_CQE_SKIP_SUCCESS do not change the call performed; the kernel ORs MSG_NOSIGNAL into send flags",
                     "argument domains wf_op: lengths/flags u32, offsets u64, descriptor numbers < 2^31, direct indices < 2^20 in the "
                     "harness (IORING_MAX_FIXED_FILES), socket address lengths < 2^16, callers cannot set O_CLOEXEC/SOCK_CLOEXEC or "
                     "SPLICE_F_FD_IN_FIXED themselves (no public constant)",
                     "socket address bytes and buffer (pointer, length) pairs are those of C16 and C14; C13 checks that they "
                     "are put in the right fields",
                     "READ_MULTISHOT: a10 passes offset 0, which the kernel ignores for the stream-like files the opcode is restricted to",
                     "statx timestamps have 0 <= tv_nsec < 10^9 (kernel contract); siginfo from waitid has one of the six CLD_ codes, "
                     "exit codes 0..255, signals 1..64; boolean socket options are reported as non-negative ints",
                     "std's SystemTime/Duration arithmetic and ExitStatus accessors are modelled from their source (checked_add/sub on "
                     "(i64 s, ns) pairs; the glibc W* macros)",
                     "models are of the code as it is in /repo after the repairs of H9 (timestamp), H21 (socket fallbacks only for "
                     "regular descriptors) and H22 (WaitInfo::status); the pre-repair functions are kept for the refutation lemmas"],
        trusted=["simulated kernel harness/src/simk.rs (consumes SQEs, completes with scripted results)",
                 "the ABI table abi_decode / abi_call (hand-written from the uapi; corroborated by the thorough-tier run on the real kernel)",
                 "std::time::SystemTime, std::process::ExitStatus as reference in the harness oracle"],
    ),
    "C04": dict(
        driver="C04",
        model="Model/SqRing.v",
        run_fn="run_sqcase",
        release_too=True,
        theorems=["C04_sq_exactly_once_unmodified", "C04_sq_every_add_accounted",
                  "C04_sq_panicked_never_published",
                  "C04_sq_never_overwrites_pending", "C04_sq_drained_means_all_delivered"],
        rule="one splitmix64 stream per case: submission queue asked for with 1, 2, 3 or 4 entries (3 is granted as 4: the model works with the granted size) on the simulated kernel with the "
             "counters starting at boundary values (0, 2^31-1.., 2^32-k) or random, optionally pre-filled, 2..3 real "
             "threads each making 1..3 submissions (first poll of a write future) plus a kernel thread consuming "
             "0..3 entries, run one at a time under the baton scheduler with a random schedule (preemption "
             "probability 5..50% at every hook-B scheduling point: lock acquisition, loads of head/tail, slot fill, "
             "tail store); the executed interleaving is the case and the model replays it step by step; "
             "non-trivial = at least one preemption or a parked submission; distinct by the Coq case term",
        assumptions=["kernel contract K1 (entries consumed in ring order, only below the published tail)",
                     "sequentially consistent interleaving at hook-B scheduling points; the Acquire/Release/SeqCst "
                     "orderings themselves are not verified",
                     "queue sizes below 2^32 entries"],
        trusted=["simulated kernel harness/src/simk.rs", "baton scheduler harness/src/sched.rs (replays are exact: "
                 "the model reports the scheduling point it expects at every step and it is diffed)",
                 "a10 verif hooks A/B"],
    ),
    "C11": dict(
        driver="C11",
        model="Model/Wake.v",
        run_fn="run_wkcase",
        theorems=["C11_no_lost_ring_wakeup", "C11_wake_is_on_its_way", "C11_awoken_bit_makes_next_poll_prompt",
                  "C11_pending_message_has_a_submitter", "C11_owed_poller_is_resumable_or_a_waker_is_running",
                  "C11_interrupted_enter_makes_poll_return", "C11_poll_return_clears_owed",
                  "C11_eintr_retry_loses_wakeup_refuted", "C11_has_waiting_bit_loses_wakeup_refuted",
                  "C11_expired_timeout_means_nothing_owed", "C11_awoken_poll_does_not_wait",
                  "C11_kept_timeout_loses_wakeup_refuted", "C11_refused_enter_loses_wakeup_refuted"],
        rule="one splitmix64 stream per case: one poller thread calling Ring::poll 1..3 times, each call with None or "
             "with Some(3600 s) (1/2 each, drawn last from the case's stream; the hour is never waited for: when the "
             "poller is blocked with a timeout and the scheduler finds nobody left who could run, the wait ends with "
             "ETIME, the driver's block handler records the marker 996 in the execution log and the case gets the "
             "event Timeout), and 1..3 waker "
             "threads each calling SubmissionQueue::wake 1..2 times, on a ring of the simulated kernel in one of the "
             "three ring modes (default, single issuer, kernel-thread flag; a single-issuer ring, half of them with "
             "DEFER_TASKRUN, is built disabled and enabled by the poller thread, which thereby is its issuer: the "
             "simulated kernel refuses any other thread's io_uring_enter with EEXIST) with random 32-bit start counters and a "
             "submission queue of 2 or 8 entries holding 0, cap-1 or cap unrelated queued operations (never "
             "completing) at the start, so that wake() finds the queue (nearly) full and has to enter and retry, "
             "run one at a time under the baton scheduler with a random schedule (preemption probability 5..50% at "
             "every hook-B scheduling point: the PollingState swap / fetch_or, loads of head/tail/flags, submission "
             "lock, slot fill, tail store, CQ head store, try_lock of wake_blocked_futures) and the simulator's "
             "blocking enter; in a third of the cases the poller's io_uring_enter is interrupted by a signal (EINTR), "
             "chosen per poll from the case's stream: not at all (1/5), at the call (2/5: the simulator's "
             "fail_next_enter = (EINTR, no completions) is armed right before Ring::poll and disarmed afterwards if "
             "the poll did not enter the kernel; the enter does its submission work and then fails) or while blocked "
             "(2/5: a block handler parks the poller at the extra scheduling point 997 instead of blocking it, the "
             "scheduler resumes it at any later moment, and the wait ends with EINTR unless a completion is there by "
             "then or the call had submitted something); the poller segment that made the failing call (the poller "
             "entry before that poll's second POLLING_STATE point), resp. the 997 entry, is the model's event PI "
             "instead of P; in a third of the cases whose queue is full at the start (prefill = entries) 1..3 "
             "further futures are polled once before the race: they find the queue full and park their waker on "
             "the ring's blocked-futures list (checked by the public behaviour: Pending, nothing queued, not "
             "woken), their wakers only count, they are kept alive to the end and never polled again; the case "
             "carries their number (wk_parked) and Shared::wake_blocked_futures then shows its further scheduling "
             "points in the log (try_lock that finds the list, second LOCK to put the rest back), which the model "
             "must replay; the observation ends with the number still parked (parked minus wake-ups counted); "
             "the executed interleaving (incl. the scheduler's report that the blocked poller can "
             "never be resumed) is the case and the model replays it step by step; the oracle (independent of the "
             "model) follows 'a wake() was called since the last poll returned' along the log and fails when the "
             "scheduler reports the poller blocked for ever while that holds, or reports that the finite timeout "
             "of the blocked poll expired while that holds (the poll slept its whole timeout through the wake-up); "
             "tags count the polls with a finite timeout, the timeouts that expired, whether a wake-up was owed "
             "then, timed polls that blocked and were woken, the kind of single-issuer ring and the enters refused "
             "with EEXIST (0 on the unchanged code); tags count the interrupted enters per "
             "kind, ring mode and whether a wake-up was owed at that moment, and the cases with parked futures per "
             "ring mode and number, how many of them were woken during the race, who took the second lock of "
             "wake_blocked_futures (poller / a waker / both / nobody), whether the poller blocked and whether an "
             "enter was interrupted in such a case; non-trivial = at least one "
             "preemption; distinct by the Coq case term; in a quarter of the default-ring cases with room for two entries the first waker thread queues an unrelated write right before its wake() (the wake message is then not at the head of the queue): those cases have no Coq term and are judged by the lost-wake-up oracle alone",
        assumptions=["API-level reading of the property (DESIGN.md §6 C11): a wake() targets the Ring::poll in "
                     "progress (called, not yet returned) at the wake's fetch_or, else the next one to start; the "
                     "stricter reading (target = a poll inside the kernel) is documented by "
                     "C11_strict_target_reading_refuted and not raised as a violation",
                     "kernel contract K6 (MSG_RING posts the message completion on the target ring, and the sender's "
                     "own completion when submitted through the ring; the kernel thread consumes what is published)",
                     "sequentially consistent interleaving at hook-B scheduling points; the AcqRel orderings "
                     "themselves are not verified",
                     "schedules the scheduler can produce: a blocked poller is resumed only when something arrived "
                     "or a signal interrupts it, 'stuck' is reported only when both queues are empty and every waker "
                     "has finished, a signal may interrupt the poller's enter at any time (ev_ok s PI = True); the "
                     "finite timeout of a blocked poll expires (event Timeout) under the precondition of 'stuck' "
                     "only: durations are not modelled, a timeout that expires while somebody could still wake the "
                     "poller is not an event of the model (by the API-level reading it would not be a lost wake-up "
                     "either: the poll returns)",
                     "per-poll timeouts: None or Some(finite), any list; Some(ZERO) given by the caller is not a "
                     "separate case (it never blocks: it behaves like an awoken poll); an awoken poll enters with a "
                     "zero timeout whatever the caller passed (C11_awoken_poll_does_not_wait)",
                     "single-issuer rule as the simulated kernel has it (Linux io_uring.c: submitter_task is the "
                     "creating thread, or with R_DISABLED the enabling thread; io_uring_enter on a ring without "
                     "SQPOLL and io_uring_register on the ring's descriptor fail with EEXIST for any other thread; "
                     "REGISTER_SEND_MSG_RING with descriptor -1 is not a call on the ring); in the model the "
                     "single-issuer waker never enters (synchronous message), the refused enter exists only in the "
                     "variant step_nsi",
                     "C11_kept_timeout_loses_wakeup_refuted and C11_refused_enter_loses_wakeup_refuted are about "
                     "variants of the step function (seeded changes C11-j: Some(t) kept when awoken; C11-i: a waker "
                     "that takes add + enter on a single-issuer ring and is refused), not about the code as it is; in "
                     "the latter the lost state has the wake message published and never submitted, so the report "
                     "'stuck' is justified by 'every waker finished and no kernel thread' instead of 'both queues "
                     "empty' (stated in the lemma)",
                     "an interrupted enter: at the call the model follows the simulator's injection (the submission "
                     "work is done, then EINTR whatever is in the completion queue: more than Linux does, which fails "
                     "with EINTR only when it would have waited and nothing was submitted); while blocked it follows "
                     "Linux (success when a completion is there or something had been submitted, EINTR otherwise); "
                     "only the poller's enter is interrupted (the wakers' enter(0, 0) is submit-only: it never waits, "
                     "so it cannot be interrupted); signal handlers themselves are not run",
                     "liveness is reduced to safety plus 'a waker inside its call eventually runs': a waker retrying "
                     "after an add that failed on a full queue counts as inside its call; termination of the retry "
                     "loop of Submissions::wake is not claimed",
                     "entries queued by others are abstracted to a count at the front of the queue (they are "
                     "consumed first and post no completion)",
                     "futures parked on the blocked-futures list are abstracted to their number; they are parked "
                     "before the race, nobody parks during it and woken futures are not polled again (the list only "
                     "shrinks, 'what was parked meanwhile' at the put-back of wake_blocked_futures is always nothing; "
                     "the put-back arithmetic is modelled as written); the blocked-futures mutex is never held across "
                     "a scheduling point, so its try_lock always succeeds and its second lock never spins (a replay "
                     "in which it did would diverge); waking a future's waker has no scheduling point and no effect "
                     "on the ring (the driver's wakers only count)",
                     "C11_has_waiting_bit_loses_wakeup_refuted is about a variant of the step function (seeded "
                     "change C11-h: a third bit HAS_WAITING in the state word), not about the code as it is"],
        trusted=["simulated kernel harness/src/simk.rs (blocking enter, MSG_RING, SQPOLL consumption, fail_next_enter, "
                 "BlockAction::Eintr, BlockAction::Etime, the single-issuer rule: issuer = creating or enabling thread, "
                 "EEXIST for any other thread's enter/register)",
                 "baton scheduler harness/src/sched.rs (replays are exact: the model reports the scheduling point it "
                 "expects at every step and it is diffed; blocked/stuck markers; point 997 = blocked with a signal "
                 "due; marker 996 = the timeout of a blocked wait expired because nobody is left to run, 999 = the "
                 "same for a wait without a timeout: the model expects 996 only for a timed wait and 999 only for an "
                 "untimed one)",
                 "the driver's attribution of a consumed fail_next_enter to the poller segment before the poll's "
                 "second POLLING_STATE point (a wrong attribution shows as a replay mismatch)",
                 "the driver's parking of futures before the race (a future that does not park is reported as an "
                 "oracle failure of the setup; a wrong number shows as a replay mismatch) and util::WakeLog counting "
                 "their wake-ups",
                 "a10 verif hooks A/B"],
    ),
    "C09": _ops_entry("C09", ["C09_restart_transparent", "C09_final_completion_ends_attempt",
                              "C09_multi_interruption_with_more_surfaces_refuted",
                              "C09_multi_restart_with_queued_results_panics_refuted"],
                      "EINTR/ECANCELED completions"),
    "C01": _ops_entry("C01", ["C01_inflight_implies_allocated", "C01_addresses_stable",
                              "C01_reachable_states_well_formed"], "drops and completions"),
    "C02": _ops_entry("C02", ["C02_outputs_refine_kernel_script", "C02_single_result_is_the_only_result",
                              "C02_single_resolves_once", "C02_single_keeps_last_result_refuted",
                              "C02_race_results_are_own_in_order", "C02_race_stream_order_c02a_refuted"],
                      "completions and polls",
                      extra=dict(also_drivers=["C03R"], assumptions=RACE_ASSUMPTIONS, trusted=RACE_TRUSTED,
                                 model=" + Model/OpRace.v (small-step race, replayed by driver C03R)")),
    "C03": _ops_entry("C03", ["C03_readying_completion_wakes_latest_waker", "C03_queue_full_waiter_is_parked",
                              "C03_end_of_poll_wakes_parked", "C03_parked_only_if_queue_full_refuted",
                              "C03_race_readying_completion_wakes_latest_waker", "C03_race_parked_waker_is_woken",
                              "C03_race_parked_waker_h15_lost", "C03_race_refines_atomic_per_operation_partial"],
                      "polls with replaced wakers",
                      extra=dict(also_drivers=["C03R"], assumptions=RACE_ASSUMPTIONS, trusted=RACE_TRUSTED,
                                 model=" + Model/OpRace.v (small-step race, replayed by driver C03R)")),
    "C06": _ops_entry("C06", ["C06_drop_cancels_exactly_it", "C06_cancel_targets_only_dropped",
                              "C06_state_freed_at_most_once", "C06_dropped_state_is_reclaimed",
                              "C06_race_state_reclaimed_exactly_once", "C06_race_reclaimed_c06a_leaks",
                              "C06_race_two_step_c06b_freed_early"], "drops",
                      extra=dict(also_drivers=["C03R"], assumptions=RACE_ASSUMPTIONS, trusted=RACE_TRUSTED,
                                 model=" + Model/OpRace.v (small-step race, replayed by driver C03R)")),
    "C05": dict(
        driver="C05",
        model="Model/CqRing.v",
        run_fn="run_cqcase",
        release_too=True,
        theorems=["C05_cq_exactly_once_in_order", "C05_cq_reads_published_only",
                  "C05_cq_kernel_never_overwrites_unread", "C05_cq_poll_drains_ring",
                  "C05_cq_internal_never_dispatched"],
        rule="one splitmix64 stream per case: CQ of 1..16 entries on the simulated kernel, both ring counters "
             "starting at boundary values (0, 2^31-1.., 2^32-k) or random, 1..20 real write operations held in "
             "flight, a script of postings (operation completions in any order with unique results, user_data 0-3 "
             "bookkeeping entries, IORING_CQE_F_SKIP entries pointing at a trap) between polls, before the k-th "
             "operation entry inside a poll and before the head store; overflow list when the ring is full; "
             "non-trivial = at least 2 completions posted; distinct by the Coq case term",
        assumptions=["kernel contract K3 (CQEs written only into free slots, published by the tail, NODROP overflow) "
                     "as implemented by the simulated kernel",
                     "CQ sizes below 2^32 entries (the kernel caps them far lower)",
                     "sequentially consistent interleaving of kernel postings with the poll loop at hook-B points"],
        trusted=["simulated kernel harness/src/simk.rs (twin of the kernel contract K1-K8)",
                 "a10 verif hooks A/B (src/verif.rs)"],
    ),
    "C08": dict(
        driver="C08",
        model="Model/BufPool.v",
        run_fn="run_bpcase",
        release_too=True,
        theorems=["C08_pool_partition_invariant", "C08_ring_slot_free_on_release", "C08_release_returns_own_id",
                  "C08_tail_wrap_safe", "C08_all_available_when_quiescent", "C08_lost_only_when_abandoned",
                  "C08_all_available_h11_refuted", "C08_pool_partition_h26_refuted"],
        rule="one splitmix64 stream per case (VERIF_SEED, index) on the simulated kernel: a real ReadBufPool of 1, 2, 4 or 8 "
             "buffers of 1..64 bytes (1, 2 and 64 over-weighted) and up to 4 concurrent real pool operations "
             "(read(pool.get()), recv(pool.get()), multishot_read(pool), multishot_recv(pool)); 8..44 events drawn from "
             "{start an operation (cancellation winning or losing), kernel selects the buffer at the ring head for an "
             "in-flight request, stores min(len, buffer size) bytes of a per-completion pattern (len = 0, 1, size, beyond "
             "size, random) and completes with F_BUFFER | bid << 16 (+ F_MORE for multishot; -ENOBUFS when nothing is "
             "offered), kernel ends a request with 0 and no buffer, Ring::poll to quiescence, poll of the future/stream "
             "(obtaining a ReadBuf), truncate / extend_from_slice within the capacity, release(), drop of a ReadBuf (any "
             "order, repeated releases), drop of a future while in flight or with undelivered completions (one case in "
             "three), drop of the pool handle (one case in five)}; in two cases of five with >= 2 buffers one block in "
             "which two real threads release/drop 2..6 owning ReadBufs of the pool under the baton scheduler (preemption "
             "probability 10..60% at the hook-B points of release: lock of reregister_lock, tail store) while a kernel "
             "thread picks up to 3 buffers, the executed interleaving replayed step by step on the small-step part of "
             "the model; case 0 is the regression schedule of H26 (one thread drops the ReadBuf whose entry goes to ring "
             "slot 0 while the kernel selects twice between the entry write and the tail store); every 500th case (quick; "
             "every 2000th in the thorough tier) first runs 70 000..72 000 rounds of pick / poll / (release) / drop on a "
             "pool of two (multishot stream or one single-shot operation per round) so that the 16-bit tail wraps "
             "(checked by a checksum over every observation of every round); an epilogue ends every request, delivers every "
             "completion and drops every ReadBuf; non-trivial = at least one buffer delivered and released; distinct by "
             "the Coq case term",
        assumptions=["pool_size = 2^k with k <= 15 and buf_size > 0 (hypothesis params_ok; ReadBufPool::new asks for the first, "
                     "a zero buf_size makes release divide by zero)",
                     "kernel contract K5 as implemented by the harness: the kernel consumes ring entries in order from its "
                     "private head, only below the published tail (read at selection time from the last two bytes of "
                     "ring entry 0, as in the Linux ABI), writes only inside the selected entry's (address, "
                     "length) and reports the entry's bid in the completion; a request that finds nothing offered fails "
                     "with -ENOBUFS",
                     "the theorems are about the code after the repair of H26 (41f16c5: release writes addr/len/bid only); "
                     "what the code did before (entry write to slot 0 also zeroed the tail): C08_pool_partition_h26_refuted",
                     "sequentially consistent interleaving at the hook-B scheduling points of ReadBufPool::release (lock, "
                     "tail store); the Acquire/Release orderings themselves are not verified",
                     "a ReadBuf is released by one thread at a time (&mut self; enforced by the borrow checker, mirrored in "
                     "the model by owned.take())",
                     "all_available_when_quiescent holds under the clause 'no id was picked for an abandoned operation' "
                     "(lost = []), which C08_lost_only_when_abandoned discharges for every history that drops no future; "
                     "without the clause the statement is false: known finding H11, witness C08_all_available_h11_refuted",
                     "Arc reference counting of the shared pool (when the ring is unregistered and freed) is modelled, not "
                     "proved; operation state lifetimes are C06's subject"],
        trusted=["simulated kernel harness/src/simk.rs (provided-buffer ring registration, pbuf_pick / pbuf_available "
                 "16-bit head arithmetic) and the kernel side of pool reads in harness/src/props/c08.rs",
                 "baton scheduler harness/src/sched.rs (replays are exact: the model reports the scheduling point it "
                 "expects at every thread step and it is diffed)",
                 "a10 verif hooks A/B"],
    ),
    "C10": dict(
        driver="C10",
        model="Model/Composite.v",
        run_fn="run_ccase",
        theorems=["C10_write_all_exact", "C10_write_all_vectored_exact", "C10_send_all_exact",
                  "C10_send_all_vectored_exact",
                  "C10_read_n_exact_any_capacity", "C10_read_n_vectored_exact_any_capacity",
                  "C10_recv_n_exact_any_capacity", "C10_recv_n_vectored_exact_any_capacity",
                  "C10_read_n_exact", "C10_read_n_vectored_exact", "C10_recv_n_exact", "C10_recv_n_vectored_exact",
                  "C10_read_n_h16_refuted", "C10_read_n_pool_h16_refuted", "C10_read_n_vectored_h16_refuted",
                  "C10_recv_n_h16_refuted", "C10_recv_n_vectored_h16_refuted", "C10_offset_sentinel_refuted"],
        rule="one splitmix64 stream per case (VERIF_SEED, index) on the simulated kernel: operation in {write_all, "
             "write_all_vectored, send_all, send_all_vectored, read_n, read_n_vectored, recv_n, recv_n_vectored} "
             "(vectored ones twice as often); 1..8 buffers as [Vec<u8>; N], [&'static [u8]; N] or tuples mixing both "
             "(reads: arrays and tuples of Vec<u8> with a random initialised prefix, or a ReadBufPool buffer of "
             "1..100 bytes for read_n/recv_n); empty buffers first, last, alternating or at random, total >= 1; "
             "lengths 1, 2, <= 16, <= 48 or <= 5000, one write case in ten with static buffers of 2^31..2^32-1 bytes "
             "(a never-touched 4 GiB mapping); n within the spare capacity, equal to it, beyond it (H16) or near "
             "usize::MAX; offset none or .at/.from with boundary (0, 1, 4095, 2^31-1, 2^31, 2^32-1, 2^32, 2^40+7, "
             "2^62+12345) or random values below 2^62; every subset of the SendFlag/RecvFlag constants; .zc() before "
             "or after .flags(); .extract() on half of the writes; the kernel's result for each request drawn when "
             "the request arrives: 0, an errno (EIO, EPIPE, ENOSPC, ECONNRESET, EAGAIN), EINTR/ECANCELED (restart), "
             "never completing, 1, everything asked for, one less, or random (small steps / uniform / half); "
             "zero-copy sends complete with (res, F_MORE) then (0, F_NOTIF), errors with one or two CQEs; reads store "
             "a position-dependent byte stream; non-trivial = at least one completed transfer; distinct by the Coq "
             "case term. Thorough: 40 000 cases and 40 rounds of write_all_vectored / read_n on real pipes of 4096 "
             "bytes (F_SETPIPE_SZ) comparing the bytes received",
        assumptions=["buffers shorter than 2^32 bytes (hypothesis wf: the Buf traits expose u32 lengths; larger "
                     "buffers are C14's finding H17) and a total length below 2^64 (total_fits)",
                     "kernel results within what the request asked for: 0 <= r_i <= requested_i (hypothesis within; "
                     "Linux never transfers more than requested); negative results outside the theorems are "
                     "covered by the model tie only (EINTR/ECANCELED restart, other errnos returned)",
                     "positional offsets: the running offset stays below u64::MAX and does not wrap (hypothesis "
                     "offset_ok; u64::MAX is a10's marker for 'no offset' - witness C10_offset_sentinel_refuted; "
                     "Linux refuses offsets of 2^63 and above for ordinary files, the harness stays below 2^63)",
                     "reads: 'UnexpectedEof only if the stream ended' is proved under the named hypothesis "
                     "spare_covers (total spare capacity >= n); without it the clause fails: known finding H16, "
                     "witnesses C10_*_h16_refuted; everything else is proved for any capacity "
                     "(C10_*_exact_any_capacity)",
                     "EINVAL is not among the scripted errors (a10 maps it to ErrorKind::Unsupported)",
                     "the kernel stores read data front to back through the pointers it was given and selects "
                     "provided buffers from the registered ring (simulated kernel contract K5)"],
        trusted=["simulated kernel harness/src/simk.rs (twin of the kernel contract K1-K8)",
                 "a10 verif hook A (src/verif.rs)",
                 "decoding of iovec/msghdr from the SQE in harness/src/props/c10.rs (layouts asserted against libc)"],
    ),
    "C12": dict(
        driver="C12",
        model="Model/Teardown.v",
        run_fn="run_tdcase",
        theorems=["C12_teardown_memory_safe", "C12_teardown_memory_safe_fixed", "C12_teardown_log_safe",
                  "C12_teardown_log_safe_fixed", "C12_teardown_releases_everything",
                  "C12_teardown_exactly_once", "C12_teardown_of_populations",
                  "C12_fd_dropped_after_ring_refuted", "C12_abandoned_ops_beyond_cq_capacity_refuted",
                  "C12_op_in_flight_after_ring_drop_refuted", "C12_op_in_flight_after_ring_drop_refuted_notification",
                  "C12_teardown_releases_everything_fixed", "C12_teardown_of_populations_fixed",
                  "C12_seeded_c12c_releases_state_in_flight_refuted",
                  "C12_seeded_c12c_uses_released_state_in_drain_refuted",
                  "C12_seeded_c01f_releases_state_in_flight_refuted",
                  "C12_ring_drop_leaves_only_uncancelable", "C12_in_flight_after_ring_drop_is_uncancelable",
                  "C12_seeded_c12k_without_submit_all_refuted"],
        rule="one splitmix64 stream per case (VERIF_SEED, index) on the simulated kernel (strict_cancel mode): a Ring with "
             "(sq, cq) entries in {(2,2), (2,4), (4,4), (4,8)} and random 32-bit start counters; 0..2 SubmissionQueue "
             "clones; 0..3 AsyncFds over fake descriptors (regular or direct), in 3 cases of 8 each regular one with "
             "probability 1/2 marked not cancellable (every operation on it survives ASYNC_CANCEL and the blanket "
             "REGISTER_SYNC_CANCEL, which then fails with ETIME), in 1 case of 5 each remaining regular one with "
             "probability 2/3 marked refusing (the kernel refuses every request on it while preparing it: EBADF posted "
             "when the submission is consumed, never in flight; its operations start unpolled or queued, and in half of "
             "these cases a refused submission is queued in front of an ordinary one); 0..4 operations, each on a random AsyncFd (read into a "
             "Vec, multishot accept) or owning a SubmissionQueue (socket), each in a starting state from {never polled, "
             "submission queued, in flight, final completion processed but result not taken, finished} (one case in "
             "three with mostly in-flight operations so that the drain overflows), in 3 cases of 8 plus 1..2 zero-copy "
             "sends (send(Vec).zc(): result with F_MORE, then the notification) in one of eight starting states (the "
             "five, and: result processed / notification outstanding; abandoned before the result was processed, "
             "notification outstanding; abandoned and both completions processed by Ring::poll during set-up = state "
             "released in set-up), queued ones limited to the queue size; 0..2 ReadBufPools with 0..2 ReadBufs each, "
             "obtained through a completed pool read on a throw-away descriptor; the drop order is a random permutation "
             "of all objects with every live future before the AsyncFd it borrows (a quarter each: Ring first, Ring "
             "last) and 0..4 kernel steps (KComplete o = the next completion of o: the result of a zero-copy send "
             "whose result is due, else the final completion) inserted at random positions including after the Ring "
             "and after the last drop; every case runs in a forked child with the watched state boxes and their "
             "buffers quarantined (a use after free reads stale memory instead of crashing) and a free-time probe of "
             "the simulated kernel's tables. Thorough: 20 000 cases, all 120 orders of a fixed population of five "
             "objects (ring, clone, fd, in-flight read on it, pool; the 60 orders the borrow checker accepts are run), "
             "1 890 cases of a second exhaustive family (ring, fd0 with an in-flight zero-copy send, not-cancellable "
             "fd1 with an in-flight read: the 30 admissible orders of the five drops x the 63 placements of two kernel "
             "steps), and 48 populations on the real kernel (pipes, in-flight/queued/unstarted reads, pools with "
             "buffers from real reads) checked only by /proc/self/fd, /proc/self/maps and the number of live heap "
             "blocks; non-trivial = at least three drops; distinct by the Coq case term",
        assumptions=["kernel contract K1-K4 (DESIGN.md §5) as the simulated kernel implements it: submissions consumed "
                     "in order on enter, all of them (the ring is set up with IORING_SETUP_SUBMIT_ALL; without it the "
                     "simulated kernel, like io_submit_sqes(), stops behind a request it refuses while preparing it: "
                     "d_rej, consume_stop); CLOSE executes at once; a request is cancellable iff it is in flight, the kernel "
                     "is able to cancel it (not in d_surv) and it is not a two-step request whose result has been "
                     "posted; ASYNC_CANCEL of a cancellable request posts its final completion (a two-step request "
                     "whose result is due posts (-ECANCELED, F_MORE) and then the notification), of any other request "
                     "EALREADY / ENOENT; REGISTER_SYNC_CANCEL(ANY|ALL) does the same for everything cancellable in "
                     "flight, in order (the simulated kernel matches requests as io_cancel_req_match() does: without ANY "
                     "only requests whose user_data equals addr, or whose descriptor / opcode agree, are named), leaves the rest in flight and then fails with ETIME (Completions::drop logs "
                     "that and continues); K2: a two-step request posts its result with F_MORE and later a final "
                     "notification, in that order; a completion goes into the ring when there is room and the overflow "
                     "list is empty, else onto the overflow list; every enter flushes the overflow list into free "
                     "slots; the kernel may complete a request at any time, also after the Ring and every handle are "
                     "gone (nobody processes that completion)",
                     "no kernel submission thread (IORING_SETUP_SQPOLL off: no operation is started after the Ring was "
                     "dropped); munmap, close and io_uring_register(UNREGISTER_PBUF_RING) succeed",
                     "a future is not dropped after the AsyncFd it borrows (borrows_ok: enforced by the borrow checker); "
                     "every object is dropped at most once (ownership; the model ignores a second drop)",
                     "operation resources do not themselves hold a ReadBuf / ReadBufPool (reads into pool buffers are "
                     "completed before the teardown starts); ReadBufs are owned buffers (release writes the pool ring)",
                     "the theorems are stated over any state satisfying the invariant wf (reference counts = live "
                     "holders, one final completion due per running or abandoned operation, every posted F_MORE result "
                     "followed by its final completion); init_wf proves it for every population whose operations name "
                     "existing AsyncFds and whose ReadBufs name existing pools",
                     "C12_teardown_memory_safe(_fixed) and C12_teardown_log_safe(_fixed) have NO exclusion: the handler "
                     "only touches allocated states and no state is released while a request of its operation is in "
                     "flight or its final completion is unprocessed (log_due_safe)",
                     "H13 (fd-dropped-after-ring), H14 (abandoned-ops-beyond-cq-capacity, before fbe02e5) and H28 "
                     "(op-in-flight-after-ring-drop: the operation survived the blanket cancellation or only its "
                     "notification is outstanding; its state and buffer are never released) are named exceptions of "
                     "C12_teardown_releases_everything, each with a witness; the model wired into the correspondence is "
                     "drop_ring_fixed (the code as it is after fbe02e5: C12_teardown_releases_everything_fixed names "
                     "H28 and H13 only); step_c12c / step_c01f model the seeded changes C12-c / C01-f for the "
                     "C12_seeded_*_refuted witnesses"],
        trusted=["simulated kernel harness/src/simk.rs (twin of the kernel contract K1-K8; notes a closed ring "
                 "descriptor at the next ring call)",
                 "tracking allocator harness/src/alloc.rs (frees of watched addresses, frees of blocks that are not live; "
                 "quarantine of watched blocks and the free-time probe used by C12)",
                 "a10 verif hook A (src/verif.rs): enter, register, mmap, munmap, close",
                 "fcntl(F_GETFD) as the account of whether the ring descriptor is open; /proc/self/fd and "
                 "/proc/self/maps in the real-kernel tier",
                 "how the driver learns addresses: operation state = the heap-block word of the future (checked against "
                 "user_data once submitted), pool allocations = ring_addr of the registration and the lowest buffer "
                 "address in the ring"],
    ),
    "C14": dict(
        driver="C14",
        model="Model/BufTraits.v",
        run_fn="run_bcase",
        theorems=["C14_exposed_pairs_in_bounds", "C14_reported_lengths_agree",
                  "C14_set_init_appends_in_order", "C14_limit_never_exceeded", "C14_counting_wrapper_counts_every_transfer",
                  "C14_as_slice_shows_parts"],
        rule="one splitmix64 stream per case (VERIF_SEED, index): family in {Buf x 12 provided types (parts, len, "
             "is_empty and as_slice), BufMut, "
             "BufSlice/BufMutSlice as arrays and tuples of arity 1..8}, lengths/capacities with empty and full "
             "buffers, limit in {none, <= total, 2^32+k, k*2^32+j, boundary pool incl. usize::MAX}, 1..5 "
             "query/set_init operations with the bytes written through the exposed iovecs first; non-trivial = "
             "some capacity > 0 and (a limit, arity > 1 or a set_init); distinct by the Coq case term",
        assumptions=["buffers shorter than 2^32 bytes (hypothesis wf; larger buffers: known finding H17)",
                     "Vec/Box/Arc/String allocation behaviour is std's; addresses are canonicalised to offsets"],
        trusted=["Rust std allocation behaviour of Vec/Box/Arc/String (modelled as base/len/cap triples)"],
    ),
    "C16": dict(
        driver="C16",
        model="Model/SockAddr.v",
        run_fn="run_sacase_fixed",
        theorems=["C16_sockaddr_roundtrip_except_unix_path", "C16_h7_unix_path_reads_back_unnamed",
                  "C16_sockaddr_roundtrip_refuted", "C16_sockaddr_roundtrip_fails",
                  "C16_ptr_len_covers_except_short_abstract", "C16_h8_unix_abstract_arrives_padded",
                  "C16_ptr_len_covers_refuted", "C16_ptr_len_covers_fails",
                  "C16_bind_getsockname_roundtrip_except_unix",
                  "C16_sockaddr_roundtrip_fixed", "C16_ptr_len_covers_family_struct_fixed",
                  "C16_bind_getsockname_roundtrip_fixed", "C16_unix_unnamed_every_reported_length", "C16_unix_length_zero_h29_refuted"],
        rule="sweep first: Unix pathnames of every length 1..107 and abstract names of every length 0..107 "
             "(2 each, bytes from three styles incl. non-UTF-8 and embedded/trailing NULs for names), unnamed, "
             "NoAddress, 10 boundary ports x 4 IPv4 addresses and x 16 (flowinfo, scope_id) boundary pairs for IPv6, "
             "each through the family type and through SocketAddr; corpus for H7/H8 and a 108-byte pathname reply; "
             "then one splitmix64 stream per case (VERIF_SEED, index): class in {IPv4, IPv6, path, abstract, unnamed, "
             "NoAddress, raw sockaddr_un contents, raw sockaddr_in/in6 contents}, filler byte for the unwritten part "
             "of the storage, 0..2 extra reported lengths (incl. ones that trip the debug assertions); "
             "thorough adds real bind/getsockname on Unix (temp dir, abstract) and loopback sockets; "
             "non-trivial = any case but NoAddress; distinct by the Coq case term",
        assumptions=["x86-64 Linux layouts: sockaddr_in 16, sockaddr_in6 28, sockaddr_un 2+108 bytes, little-endian "
                     "(asserted by the harness against libc at start-up)",
                     "Unix pathnames of 1..107 bytes without NUL and abstract names of 0..107 bytes: what "
                     "std::os::unix::net::SocketAddr can hold (108 bytes are refused by std; recorded in the evidence)",
                     "Linux's reading of a (pointer, length) name and the length it reports (kernel_view, wire, "
                     "kernel_len) are stated from unix(7)/ip(7)/ipv6(7) and net/unix/af_unix.c; the thorough tier "
                     "corroborates them on the running kernel",
                     "sin6_flowinfo is the u32 std stores, in host order (as std itself converts it)",
                     "init is only given lengths up to the as_mut_ptr capacity (a 108-byte pathname makes Linux "
                     "report 111 > 110: outside the quantification, noted in the report)",
                     "debug build: a failing debug_assert! in init is the outcome None of the model"],
        trusted=["std's SocketAddr::{from_pathname, from_abstract_name, as_pathname, as_abstract_name, is_unnamed} "
                 "(modelled by from_pathname/UnAbstract of Model/SockAddr.v; exercised by every Unix case)",
                 "Linux address semantics as stated in kernel_view/wire/kernel_len (coq/Proofs/SockAddrProofs.v)"],
    ),
    "C15": dict(
        driver="C15",
        model="Model/ReadBufEdit.v",
        run_fn="run_rbcase",
        release_too=True,
        theorems=["C15_readbuf_refines_bounded_vec_step", "C15_readbuf_refines_bounded_vec",
                  "C15_readbuf_refines_bounded_vec_checked_build", "C15_readbuf_refines_bounded_vec_every_build",
                  "C15_rejection_changes_nothing",
                  "C15_edits_confined_to_slot", "C15_reads_confined_to_slot", "C15_release_slot_unchanged"],
        rule="one splitmix64 stream per case (VERIF_SEED, index): a real ReadBufPool on a real ring with pool_size in "
             "{1,2,4,8} and buf_size in 1..64 (1, 2 and 64 over-weighted); every slot filled by a real read from a pipe "
             "(fill 1, capacity-1, capacity or uniform), all unused capacity overwritten with known bytes; one buffer "
             "(any slot) receives 1..8 calls drawn from truncate / clear / remove (a..b, a..=b, ..b, ..=b, a.., .., "
             "(Bound,Bound) pairs with Excluded starts; two thirds valid for the current length incl. empty and at either "
             "end, the rest from {0,1,len-1,len,len+1,len/2,cap,cap+1,usize::MAX-1,usize::MAX}) / set_len (beyond the "
             "capacity only in the build with debug assertions) / extend_from_slice (0, exactly fitting, one too many, "
             "cap+1) / spare_capacity_mut / repeated real read into the owned buffer / BufMut::extend_from_slice "
             "(parts_mut + set_init); then the buffer is dropped and one more read is issued; the H23 regression corpus "
             "(bounds Excluded(usize::MAX) / Included(usize::MAX)) runs first; 1 in 12 cases runs the calls "
             "on a not yet filled buffer (model tie only, outside the property); non-trivial = owned buffer with at "
             "least one call; distinct by the Coq case term (which contains the pool memory)",
        assumptions=["buf_size is a non-zero u32 and pool_size <= 2^15 (hypothesis pool_ok; ReadBufPool::new asks for both)",
                     "the buffer was delivered by the kernel: pointer = start of slot id < pool_size, length <= buf_size "
                     "(hypothesis owned_wf, established by init_buffer: lemma init_state_wf)",
                     "in a build without debug assertions: set_len (an unsafe fn) is called within its documented "
                     "contract new_len <= capacity (predicate edit_ok / set_len_in_contract; True in a build with the "
                     "assertion). Nothing is assumed about range bounds since the repair of H23 (dcfd7cd); what the "
                     "code did before: C15_remove_bounds_h23_refuted",
                     "the kernel stores read data only inside the (address, length) it was given and selects only "
                     "buffers it was handed (kernel behaviour, observed not proved)"],
        trusted=["std Vec<u8> as the reference in the harness (truncate, clear, drain, extend_from_slice, set_len; "
                 "drain leaves the bytes beyond the new length untouched)",
                 "Linux io_uring provided-buffer selection and pipe reads (real kernel, no simulator)"],
    ),
    "C18": dict(
        driver="C18",
        model="Model/Build.v",
        run_fn="run_bcase18",
        release_too=True,
        theorems=["C18_build_all_or_nothing", "C18_build_outcome_function_of_answers", "C18_build_never_panics",
                  "C18_params_honour_config", "C18_setters_honoured", "C18_build_checked_overflow_panics_witness"],
        rule="configurations x refusal points, fully crossed, on the simulated kernel: configuration k from one splitmix64 "
             "stream (VERIF_SEED, k): 8 fixed ones (default, everything set, kernel thread, maximum size, and four that "
             "Linux rejects with EINVAL) then random lists of setter calls in random order (queue sizes from pools with "
             "0, non powers of two, 32768/32769, 65536/65537, u32::MAX; clamp; kernel thread, cpu affinity, idle timeouts "
             "up to Duration::MAX; single issuer; defer taskrun; disabled; attach to another ring; direct descriptor "
             "tables of 0..2^15 slots; repeated calls); each is built under each of 26 kernel behaviours: no refusal, "
             "io_uring_setup failing with 5 errnos, each of the 4 required feature bits missing, none/two missing/all 32 "
             "bits set, a descriptor that cannot be mapped, mmap number 0/1/2 failing, madvise number 0/1/2 failing, "
             "IORING_REGISTER_FILES2 failing with 2 errnos, another register opcode failing, 3 double refusals; a "
             "returned ring is inspected and dropped; thorough adds 20 builds on the real kernel (EINVAL before the "
             "descriptor exists, EMFILE/EINVAL from the file table registration after the mappings exist, an address "
             "space limit that makes a mapping fail, successful builds and drops) checked by /proc/self/fd and "
             "/proc/self/maps only; non-trivial = at least one setter or a refusal; distinct by the Coq case term",
        assumptions=["the kernel's behaviour is an arbitrary answer to each question build asks (setup, three mmap, three "
                     "madvise, one register); the theorems quantify over all of them, the harness drives the 26 listed ones",
                     "munmap and close succeed on what mmap and io_uring_setup returned (their errors are ignored by the code)",
                     "io_uring_setup leaves the flags word of the parameter block as it was passed in (the simulated "
                     "kernel does; the theorems are stated for whatever flags are left there)",
                     "C18_build_never_panics: built without overflow checks, or granted sizes with sq_off.array + 4*sq and "
                     "cq_off.cqes + 16*cq below 2^32 (Linux caps the sizes at 32768 and 65536 entries)",
                     "the ring's private fields are read through its Debug rendering"],
        trusted=["simulated kernel harness/src/simk.rs (io_uring_setup parameter validation as in io_uring_create, memfd "
                 "backed mappings, failure injection)",
                 "a10 verif hooks A (src/verif.rs, src/io_uring/libc.rs): setup, register, mmap, munmap, madvise",
                 "/proc/self/fd and /proc/self/maps as the account of descriptors and mappings"],
    ),
}

# Drivers of other properties whose cases also bear on a property (run by bin/check with the
# other property's model, same verdict rules).
# C02: an operation receives its own result only if the completion entry it is read from is not
# given back to the kernel first (the completion-ring mechanics of C05: seed C02-c).
PROPS["C02"]["also_drivers"] = PROPS["C02"].get("also_drivers", []) + ["C05"]
# C14: the skipping and counting wrappers (SkipBuf, ReadNBuf) are private to the crate; the only
# way to drive the real ones is through write_all / read_n and their relatives, i.e. C10's driver
# (seed C14-c: the counting wrapper missed a transfer of 0 bytes).
PROPS["C14"]["also_drivers"] = ["C10"]
# C01: "pool buffers" are among the memory an in-flight operation has handed to the kernel; the
# history driver of C01 has no buffer pools, C08's driver does (its oracle: the pool stays
# registered and allocated while a request selecting from it is in flight; seed C01-d).
PROPS["C01"]["also_drivers"] = ["C08"]
# The OpState family (C01, C02, C03, C06, C09) abstracts the completion queue as a FIFO that hands
# every completion to its operation exactly once; that abstraction is C05's model and driver (a
# change that breaks it breaks all five: seeds C02-c, C03-e). C06's "never leaked when the Ring is
# dropped" with more final completions than completion-queue entries is C12's driver (seed C06-e).
for _p in ("C01", "C03", "C06", "C09"):
    PROPS[_p]["also_drivers"] = PROPS[_p].get("also_drivers", []) + ["C05"]
PROPS["C06"]["also_drivers"] = PROPS["C06"]["also_drivers"] + ["C12"]
# C05 "in order": the order in which queued results of a multishot operation are handed out is
# C02's driver (seeds C02-a, C05-f). C13 "same bytes as read(2)" for a ReadBuf that is read into
# again after it was emptied is C15's driver (real kernel; seeds C15-c, C13-f). C12's "reclaims
# every abandoned operation's state" for two-step operations dropped at every point of their
# life cycle is the history driver with C06's weights (seeds C06-b, C12-c).
PROPS["C05"]["also_drivers"] = ["C02"]
PROPS["C13"]["also_drivers"] = PROPS["C13"]["also_drivers"] + ["C15"]
PROPS["C12"]["also_drivers"] = ["C06"]
# C01: the memory an operation has handed to the kernel must also outlive the Ring: a request that
# is still in flight after the Ring was dropped (it survived the blanket cancellation, or it is a
# zero-copy send whose notification is outstanding) keeps its state and buffer; the history driver
# of C01 never drops the Ring before a future, C12's driver does (its oracle: no state box or
# buffer is released while the simulated kernel has the request in flight; seed C01-f).
PROPS["C01"]["also_drivers"] = PROPS["C01"]["also_drivers"] + ["C12"]
# C13 delegates the bytes of socket addresses and the (pointer, length) pairs of buffers to C16 and
# C14: their drivers run with C13's check too.
PROPS["C13"]["also_drivers"] = PROPS["C13"]["also_drivers"] + ["C16", "C14"]
# The OpState family also abstracts the submission queue as a FIFO of capacity `cap` that never
# loses, duplicates or overwrites an accepted entry: that is C04's model and driver (seed C02-h).
for _p in ("C01", "C02", "C03", "C06", "C09"):
    PROPS[_p]["also_drivers"] = PROPS[_p].get("also_drivers", []) + ["C04"]
# C08: reading again into a ReadBuf that already owns a (full or partly filled) pool buffer is
# C15's driver, on the real kernel (seed C08-h).
PROPS["C08"]["also_drivers"] = ["C15"]
# C10: the composite writers/senders hand the kernel whatever the buffer wrappers expose
# (LimitedBuf, seed C10-h: C14's driver) and re-use one operation state across restarts of a
# two-step send (seed C10-g: the history driver with C09's weights).
PROPS["C10"]["also_drivers"] = ["C14", "C09"]
# C15: read_n / recv_n into an unassigned pool ReadBuf go through the counting wrapper: C10's driver
# (seed C15-g). C16: the (pointer, length) pair is put into msghdr by the callers: C13's driver
# compares msg_name / msg_namelen of every send_to / recv_from with the ABI (seed C16-g).
PROPS["C15"]["also_drivers"] = ["C10"]
PROPS["C16"]["also_drivers"] = ["C13"]
# C12: descriptors of every kind and every way of closing them at teardown (explicit close()
# futures, accepted descriptors of direct listeners) are C07's driver, which now also checks that
# the ring's shared state is released once every handle is gone (seeds C12-i, C12-j).
PROPS["C12"]["also_drivers"] = PROPS["C12"]["also_drivers"] + ["C07"]
# C02's "every operation reports exactly what the kernel produced for it" also covers the composite
# futures built on top of the operations (read_n / recv_n over a counting wrapper, incl. with a
# pool buffer the kernel selects): C10's driver and model run with C02's check too (seeded change
# C02-p, a ReadNBuf override that forgot the transfer size, had been missed).
PROPS["C02"]["also_drivers"] = PROPS["C02"]["also_drivers"] + ["C10"]
# C04: how the ring's mappings are set up (sizes granted by the kernel, the advice given to each
# mapping: MADV_DONTFORK keeps a forked child from becoming a submitter the lock does not cover) is
# C18's construction model and driver; they run with C04's check too (seeded change C04-p).
PROPS["C04"]["also_drivers"] = PROPS["C04"].get("also_drivers", []) + ["C18"]

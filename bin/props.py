"""Per-property configuration for bin/check."""

PROPS = {
    "C05": dict(
        driver="C05",
        model="Model/CqRing.v",
        run_fn="run_cqcase",
        release_too=True,
        theorems=["C05_cq_exactly_once_in_order", "C05_cq_reads_published_only",
                  "C05_cq_kernel_never_overwrites_unread", "C05_cq_poll_drains_ring",
                  "C05_cq_internal_never_dispatched"],
        rule="one splitmix64 stream per case: CQ of 1..16 entries on the simulated kernel, both ring counters "
             "starting at boundary values (0, 2^31-1.., 2^32-k) or random, 1..20 real write operations held in "
             "flight, a script of postings (operation completions in any order with unique results, user_data 0-3 "
             "bookkeeping entries, IORING_CQE_F_SKIP entries pointing at a trap) between polls, before the k-th "
             "operation entry inside a poll and before the head store; overflow list when the ring is full; "
             "non-trivial = at least 2 completions posted; distinct by the Coq case term",
        assumptions=["kernel contract K3 (CQEs written only into free slots, published by the tail, NODROP overflow) "
                     "as implemented by the simulated kernel",
                     "CQ sizes below 2^32 entries (the kernel caps them far lower)",
                     "sequentially consistent interleaving of kernel postings with the poll loop at hook-B points"],
        trusted=["simulated kernel harness/src/simk.rs (twin of the kernel contract K1-K8)",
                 "a10 verif hooks A/B (src/verif.rs)"],
    ),
    "C13": dict(
        driver="C13",
        model="Model/Encode.v + Model/ResultDecode.v",
        run_fn="run_c13case",
        theorems=["C13_encode_matches_abi_except_h20_h24", "C13_h20_splice_to_direct_swaps_tables",
                  "C13_h24_statx_direct_is_refused", "C13_encode_matches_abi_h20_refuted",
                  "C13_encode_matches_abi_h24_refuted", "C13_encode_matches_abi_fails",
                  "C13_fixed_file_iff_direct", "C13_alloc_and_cloexec_follow_requested_kind",
                  "C13_result_done_iff_success", "C13_result_errno_is_the_calls",
                  "C13_result_errno_reported_except_einval", "C13_result_einval_is_masked",
                  "C13_from_raw_roundtrip", "C13_fallback_same_descriptor_regular", "C13_fallback_h21_refuted",
                  "C13_fallback_h21_every_direct_socket_fallback", "C13_fallback_same_descriptor_fails",
                  "C13_file_type_is_posix_macro", "C13_file_type_exclusive", "C13_permission_flags_are_mode_bits",
                  "C13_timestamp_matches_posix_except_h9", "C13_timestamp_h9_panics", "C13_timestamp_h9_refuted",
                  "C13_timestamp_matches_posix_fails", "C13_timestamp_fixed_matches_posix",
                  "C13_wait_status_matches_posix_except_h22", "C13_wait_status_h22_always_wrong",
                  "C13_wait_status_h22_refuted", "C13_wait_status_matches_posix_fails",
                  "C13_wait_status_fixed_matches_posix", "C13_opt_decode_matches_posix"],
        rule="one splitmix64 stream per case (VERIF_SEED, index); of every 20 cases 14 are encoding cases that walk "
             "the 42 public operations round-robin (read, read_vectored, write, write_vectored, multishot_read, "
             "splice_to/from, close, sync_all/sync_data, allocate, advise, truncate, metadata, open/open_temp_file via "
             "OpenOptions, create_dir, remove_file/dir, rename, socket, connect, bind, listen, accept, multishot_accept, "
             "send, send_to, send(_to)_vectored, recv, multishot_recv, recv_vectored/recv_from_vectored, recv_from, "
             "shutdown, socket_option x12 types, set_socket_option x7, local/peer_addr, pipe, wait, Signals::receive, "
             "mem::advise, Ring::pollable, to_direct_descriptor, to_file_descriptor, cancellation on drop), the "
             "descriptor kind alternating per round (regular AsyncFd / direct AsyncFd obtained through a scripted "
             "to_direct_descriptor), arguments from boundary pools and random values: offsets {not set, 0, 1, 511, 4096, "
             "2^31, 2^32, 2^63-1, 2^63, 2^64-2, 2^64-1, random}, lengths {0, 1, 2..16, 17..300, 4096, random}, every "
             "subset of the public flag constants, 5 Buf types, Vec and ReadBufPool buffers, 1..8 vectored buffers and a "
             "mixed tuple, IPv4/IPv6/SocketAddr/Unix path/abstract/unnamed/NoAddress, builder methods in random order; "
             "the operation is polled once on the simulated kernel and the consumed SQE plus everything the kernel would "
             "read through its pointers (iovecs, msghdr, paths, addresses, length cells) is compared with the model; the "
             "oracle decodes the SQE with a pinned ABI table and compares with the arguments passed. 2 cases script a "
             "struct statx (7 file types + invalid, all permission bits, times incl. negative, i64 bounds), 1 a siginfo "
             "(6 si_codes, exit codes 0..255, signals 1..64), 1 a socket option value or a new-descriptor result, 2 a "
             "result word (success values, 14 errnos incl. EINTR/ECANCELED/EINVAL/EOPNOTSUPP/ENOSYS) for the default and "
             "the 6 special fallbacks (socket fallbacks against a real socket of the process). Thorough adds a "
             "differential run on the real kernel (pread/pwrite at offsets, statx, socket options, socket names; regular "
             "and direct) against libc on identical fixtures; non-trivial = every case that ran; distinct by the Coq term",
        assumptions=["x86-64 Linux ABI: struct layouts (io_uring_sqe 64 bytes, msghdr 56, iovec 16, statx 256, siginfo 128) "
                     "and the constant values stated in Model/Encode.v and Model/ResultDecode.v (asserted against libc at start-up)",
                     "abi_decode (coq/Model/Encode.v) and the harness's abi_call are the trusted statement of what an SQE means, "
                     "written from io_uring_enter(2), liburing's io_uring_prep_* and the prep functions of io_uring/*.c; "
                     "IOSQE_ASYNC and IOSQE_CQE_SKIP_SUCCESS do not change the call performed; the kernel ORs MSG_NOSIGNAL into send flags",
                     "argument domains wf_op: lengths/flags u32, offsets u64, descriptor numbers < 2^31, direct indices < 2^20 in the "
                     "harness (IORING_MAX_FIXED_FILES), socket address lengths < 2^16, callers cannot set O_CLOEXEC/SOCK_CLOEXEC or "
                     "SPLICE_F_FD_IN_FIXED themselves (no public constant)",
                     "socket address bytes and buffer (pointer, length) pairs are those of C16 and C14; C13 checks that they "
                     "are put in the right fields",
                     "READ_MULTISHOT: a10 passes offset 0, which the kernel ignores for the stream-like files the opcode is restricted to",
                     "statx timestamps have 0 <= tv_nsec < 10^9 (kernel contract); siginfo from waitid has one of the six CLD_ codes, "
                     "exit codes 0..255, signals 1..64; boolean socket options are reported as non-negative ints",
                     "std's SystemTime/Duration arithmetic and ExitStatus accessors are modelled from their source (checked_add/sub on "
                     "(i64 s, ns) pairs; the glibc W* macros)",
                     "models are of the code as it is in /repo: timestamp and WaitInfo::status before proposed_fix_h9.diff / "
                     "proposed_fix_h22.diff (run_c13case_fixed is the driver for the repaired code)"],
        trusted=["simulated kernel harness/src/simk.rs (consumes SQEs, completes with scripted results)",
                 "the ABI table abi_decode / abi_call (hand-written from the uapi; corroborated by the thorough-tier run on the real kernel)",
                 "std::time::SystemTime, std::process::ExitStatus as reference in the harness oracle"],
    ),
    "C14": dict(
        driver="C14",
        model="Model/BufTraits.v",
        run_fn="run_bcase",
        theorems=["C14_exposed_pairs_in_bounds", "C14_reported_lengths_agree",
                  "C14_set_init_appends_in_order", "C14_limit_never_exceeded"],
        rule="one splitmix64 stream per case (VERIF_SEED, index): family in {Buf x 12 provided types, BufMut, "
             "BufSlice/BufMutSlice as arrays and tuples of arity 1..8}, lengths/capacities with empty and full "
             "buffers, limit in {none, <= total, 2^32+k, k*2^32+j, boundary pool incl. usize::MAX}, 1..5 "
             "query/set_init operations with the bytes written through the exposed iovecs first; non-trivial = "
             "some capacity > 0 and (a limit, arity > 1 or a set_init); distinct by the Coq case term",
        assumptions=["buffers shorter than 2^32 bytes (hypothesis wf; larger buffers: known finding H17)",
                     "Vec/Box/Arc/String allocation behaviour is std's; addresses are canonicalised to offsets"],
        trusted=["Rust std allocation behaviour of Vec/Box/Arc/String (modelled as base/len/cap triples)"],
    ),
    "C16": dict(
        driver="C16",
        model="Model/SockAddr.v",
        run_fn="run_sacase_fixed",
        theorems=["C16_sockaddr_roundtrip_except_unix_path", "C16_h7_unix_path_reads_back_unnamed",
                  "C16_sockaddr_roundtrip_refuted", "C16_sockaddr_roundtrip_fails",
                  "C16_ptr_len_covers_except_short_abstract", "C16_h8_unix_abstract_arrives_padded",
                  "C16_ptr_len_covers_refuted", "C16_ptr_len_covers_fails",
                  "C16_bind_getsockname_roundtrip_except_unix",
                  "C16_sockaddr_roundtrip_fixed", "C16_ptr_len_covers_family_struct_fixed",
                  "C16_bind_getsockname_roundtrip_fixed"],
        rule="sweep first: Unix pathnames of every length 1..107 and abstract names of every length 0..107 "
             "(2 each, bytes from three styles incl. non-UTF-8 and embedded/trailing NULs for names), unnamed, "
             "NoAddress, 10 boundary ports x 4 IPv4 addresses and x 16 (flowinfo, scope_id) boundary pairs for IPv6, "
             "each through the family type and through SocketAddr; corpus for H7/H8 and a 108-byte pathname reply; "
             "then one splitmix64 stream per case (VERIF_SEED, index): class in {IPv4, IPv6, path, abstract, unnamed, "
             "NoAddress, raw sockaddr_un contents, raw sockaddr_in/in6 contents}, filler byte for the unwritten part "
             "of the storage, 0..2 extra reported lengths (incl. ones that trip the debug assertions); "
             "thorough adds real bind/getsockname on Unix (temp dir, abstract) and loopback sockets; "
             "non-trivial = any case but NoAddress; distinct by the Coq case term",
        assumptions=["x86-64 Linux layouts: sockaddr_in 16, sockaddr_in6 28, sockaddr_un 2+108 bytes, little-endian "
                     "(asserted by the harness against libc at start-up)",
                     "Unix pathnames of 1..107 bytes without NUL and abstract names of 0..107 bytes: what "
                     "std::os::unix::net::SocketAddr can hold (108 bytes are refused by std; recorded in the evidence)",
                     "Linux's reading of a (pointer, length) name and the length it reports (kernel_view, wire, "
                     "kernel_len) are stated from unix(7)/ip(7)/ipv6(7) and net/unix/af_unix.c; the thorough tier "
                     "corroborates them on the running kernel",
                     "sin6_flowinfo is the u32 std stores, in host order (as std itself converts it)",
                     "init is only given lengths up to the as_mut_ptr capacity (a 108-byte pathname makes Linux "
                     "report 111 > 110: outside the quantification, noted in the report)",
                     "debug build: a failing debug_assert! in init is the outcome None of the model"],
        trusted=["std's SocketAddr::{from_pathname, from_abstract_name, as_pathname, as_abstract_name, is_unnamed} "
                 "(modelled by from_pathname/UnAbstract of Model/SockAddr.v; exercised by every Unix case)",
                 "Linux address semantics as stated in kernel_view/wire/kernel_len (coq/Proofs/SockAddrProofs.v)"],
    ),
    "C15": dict(
        driver="C15",
        model="Model/ReadBufEdit.v",
        run_fn="run_rbcase",
        release_too=True,
        theorems=["C15_readbuf_refines_bounded_vec_step", "C15_readbuf_refines_bounded_vec",
                  "C15_readbuf_refines_bounded_vec_checked_build", "C15_rejection_changes_nothing",
                  "C15_edits_confined_to_slot", "C15_reads_confined_to_slot", "C15_release_slot_unchanged"],
        rule="one splitmix64 stream per case (VERIF_SEED, index): a real ReadBufPool on a real ring with pool_size in "
             "{1,2,4,8} and buf_size in 1..64 (1, 2 and 64 over-weighted); every slot filled by a real read from a pipe "
             "(fill 1, capacity-1, capacity or uniform), all unused capacity overwritten with known bytes; one buffer "
             "(any slot) receives 1..8 calls drawn from truncate / clear / remove (a..b, a..=b, ..b, ..=b, a.., .., "
             "(Bound,Bound) pairs with Excluded starts; two thirds valid for the current length incl. empty and at either "
             "end, the rest from {0,1,len-1,len,len+1,len/2,cap,cap+1,usize::MAX-1,usize::MAX}) / set_len (beyond the "
             "capacity only in the build with debug assertions) / extend_from_slice (0, exactly fitting, one too many, "
             "cap+1) / spare_capacity_mut / repeated real read into the owned buffer / BufMut::extend_from_slice "
             "(parts_mut + set_init); then the buffer is dropped and one more read is issued; 1 in 12 cases runs the calls "
             "on a not yet filled buffer (model tie only, outside the property); non-trivial = owned buffer with at "
             "least one call; distinct by the Coq case term (which contains the pool memory)",
        assumptions=["buf_size is a non-zero u32 and pool_size <= 2^15 (hypothesis pool_ok; ReadBufPool::new asks for both)",
                     "the buffer was delivered by the kernel: pointer = start of slot id < pool_size, length <= buf_size "
                     "(hypothesis owned_wf, established by init_buffer: lemma init_state_wf)",
                     "in a build without overflow checks / debug assertions: set_len is called within its documented "
                     "contract and no range bound needs usize::MAX + 1 (predicate edit_ok; it is True in a build with "
                     "the checks). The second restriction is a finding: see C15_release_build_remove_wraps_refuted",
                     "the kernel stores read data only inside the (address, length) it was given and selects only "
                     "buffers it was handed (kernel behaviour, observed not proved)"],
        trusted=["std Vec<u8> as the reference in the harness (truncate, clear, drain, extend_from_slice, set_len; "
                 "drain leaves the bytes beyond the new length untouched)",
                 "Linux io_uring provided-buffer selection and pipe reads (real kernel, no simulator)"],
    ),
}

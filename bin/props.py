"""Per-property configuration for bin/check."""


def _ops_entry(pid, theorems, focus):
    return dict(
        driver=pid,
        model="Model/OpState.v",
        run_fn="run_opcase",
        theorems=theorems,
        rule="one splitmix64 stream per case: 1..4 real operations (read into a heap buffer, zero-copy send with two "
             "completions, multishot accept) on a simulated ring with 1..8 submission slots and random 32-bit start "
             "counters; 4..26 events drawn from {poll with the same or a fresh waker, drop of the future, Ring::poll, "
             "kernel completion: success / short / error / EINTR / ECANCELED / more / notif}, cancellation winning or "
             "losing per operation; event weights biased towards " + focus + "; non-trivial = at least 4 events incl. a "
             "kernel completion; distinct by the Coq case term",
        assumptions=["kernel contract K1, K2, K4 (DESIGN.md §5) as implemented by the simulated kernel",
                     "API calls are atomic with respect to completion processing (per-operation mutex held across "
                     "submission and waker store; validated by the scheduler runs of C03/C04, not proved)",
                     "the completion queue is large enough (256) that no completion waits on the overflow list"],
        trusted=["simulated kernel harness/src/simk.rs", "tracking allocator harness/src/alloc.rs (which heap block "
                 "an address belongs to; frees of operation states)", "a10 verif hooks A/B"],
    )

PROPS = {
    "C04": dict(
        driver="C04",
        model="Model/SqRing.v",
        run_fn="run_sqcase",
        release_too=True,
        theorems=["C04_sq_exactly_once_unmodified", "C04_sq_every_add_accounted",
                  "C04_sq_never_overwrites_pending", "C04_sq_drained_means_all_delivered"],
        rule="one splitmix64 stream per case: submission queue of 1..4 entries on the simulated kernel with the "
             "counters starting at boundary values (0, 2^31-1.., 2^32-k) or random, optionally pre-filled, 2..3 real "
             "threads each making 1..3 submissions (first poll of a write future) plus a kernel thread consuming "
             "0..3 entries, run one at a time under the baton scheduler with a random schedule (preemption "
             "probability 5..50% at every hook-B scheduling point: lock acquisition, loads of head/tail, slot fill, "
             "tail store); the executed interleaving is the case and the model replays it step by step; "
             "non-trivial = at least one preemption or a parked submission; distinct by the Coq case term",
        assumptions=["kernel contract K1 (entries consumed in ring order, only below the published tail)",
                     "sequentially consistent interleaving at hook-B scheduling points; the Acquire/Release/SeqCst "
                     "orderings themselves are not verified",
                     "queue sizes below 2^32 entries"],
        trusted=["simulated kernel harness/src/simk.rs", "baton scheduler harness/src/sched.rs (replays are exact: "
                 "the model reports the scheduling point it expects at every step and it is diffed)",
                 "a10 verif hooks A/B"],
    ),
    "C05": dict(
        driver="C05",
        model="Model/CqRing.v",
        run_fn="run_cqcase",
        release_too=True,
        theorems=["C05_cq_exactly_once_in_order", "C05_cq_reads_published_only",
                  "C05_cq_kernel_never_overwrites_unread", "C05_cq_poll_drains_ring",
                  "C05_cq_internal_never_dispatched"],
        rule="one splitmix64 stream per case: CQ of 1..16 entries on the simulated kernel, both ring counters "
             "starting at boundary values (0, 2^31-1.., 2^32-k) or random, 1..20 real write operations held in "
             "flight, a script of postings (operation completions in any order with unique results, user_data 0-3 "
             "bookkeeping entries, IORING_CQE_F_SKIP entries pointing at a trap) between polls, before the k-th "
             "operation entry inside a poll and before the head store; overflow list when the ring is full; "
             "non-trivial = at least 2 completions posted; distinct by the Coq case term",
        assumptions=["kernel contract K3 (CQEs written only into free slots, published by the tail, NODROP overflow) "
                     "as implemented by the simulated kernel",
                     "CQ sizes below 2^32 entries (the kernel caps them far lower)",
                     "sequentially consistent interleaving of kernel postings with the poll loop at hook-B points"],
        trusted=["simulated kernel harness/src/simk.rs (twin of the kernel contract K1-K8)",
                 "a10 verif hooks A/B (src/verif.rs)"],
    ),
    "C10": dict(
        driver="C10",
        model="Model/Composite.v",
        run_fn="run_ccase",
        theorems=["C10_write_all_exact", "C10_write_all_vectored_exact", "C10_send_all_exact",
                  "C10_send_all_vectored_exact",
                  "C10_read_n_exact_any_capacity", "C10_read_n_vectored_exact_any_capacity",
                  "C10_recv_n_exact_any_capacity", "C10_recv_n_vectored_exact_any_capacity",
                  "C10_read_n_exact", "C10_read_n_vectored_exact", "C10_recv_n_exact", "C10_recv_n_vectored_exact",
                  "C10_read_n_h16_refuted", "C10_read_n_pool_h16_refuted", "C10_read_n_vectored_h16_refuted",
                  "C10_recv_n_h16_refuted", "C10_recv_n_vectored_h16_refuted", "C10_offset_sentinel_refuted"],
        rule="one splitmix64 stream per case (VERIF_SEED, index) on the simulated kernel: operation in {write_all, "
             "write_all_vectored, send_all, send_all_vectored, read_n, read_n_vectored, recv_n, recv_n_vectored} "
             "(vectored ones twice as often); 1..8 buffers as [Vec<u8>; N], [&'static [u8]; N] or tuples mixing both "
             "(reads: arrays and tuples of Vec<u8> with a random initialised prefix, or a ReadBufPool buffer of "
             "1..100 bytes for read_n/recv_n); empty buffers first, last, alternating or at random, total >= 1; "
             "lengths 1, 2, <= 16, <= 48 or <= 5000, one write case in ten with static buffers of 2^31..2^32-1 bytes "
             "(a never-touched 4 GiB mapping); n within the spare capacity, equal to it, beyond it (H16) or near "
             "usize::MAX; offset none or .at/.from with boundary (0, 1, 4095, 2^31-1, 2^31, 2^32-1, 2^32, 2^40+7, "
             "2^62+12345) or random values below 2^62; every subset of the SendFlag/RecvFlag constants; .zc() before "
             "or after .flags(); .extract() on half of the writes; the kernel's result for each request drawn when "
             "the request arrives: 0, an errno (EIO, EPIPE, ENOSPC, ECONNRESET, EAGAIN), EINTR/ECANCELED (restart), "
             "never completing, 1, everything asked for, one less, or random (small steps / uniform / half); "
             "zero-copy sends complete with (res, F_MORE) then (0, F_NOTIF), errors with one or two CQEs; reads store "
             "a position-dependent byte stream; non-trivial = at least one completed transfer; distinct by the Coq "
             "case term. Thorough: 40 000 cases and 40 rounds of write_all_vectored / read_n on real pipes of 4096 "
             "bytes (F_SETPIPE_SZ) comparing the bytes received",
        assumptions=["buffers shorter than 2^32 bytes (hypothesis wf: the Buf traits expose u32 lengths; larger "
                     "buffers are C14's finding H17) and a total length below 2^64 (total_fits)",
                     "kernel results within what the request asked for: 0 <= r_i <= requested_i (hypothesis within; "
                     "Linux never transfers more than requested); negative results outside the theorems are "
                     "covered by the model tie only (EINTR/ECANCELED restart, other errnos returned)",
                     "positional offsets: the running offset stays below u64::MAX and does not wrap (hypothesis "
                     "offset_ok; u64::MAX is a10's marker for 'no offset' - witness C10_offset_sentinel_refuted; "
                     "Linux refuses offsets of 2^63 and above for ordinary files, the harness stays below 2^63)",
                     "reads: 'UnexpectedEof only if the stream ended' is proved under the named hypothesis "
                     "spare_covers (total spare capacity >= n); without it the clause fails: known finding H16, "
                     "witnesses C10_*_h16_refuted; everything else is proved for any capacity "
                     "(C10_*_exact_any_capacity)",
                     "EINVAL is not among the scripted errors (a10 maps it to ErrorKind::Unsupported)",
                     "the kernel stores read data front to back through the pointers it was given and selects "
                     "provided buffers from the registered ring (simulated kernel contract K5)"],
        trusted=["simulated kernel harness/src/simk.rs (twin of the kernel contract K1-K8)",
                 "a10 verif hook A (src/verif.rs)",
                 "decoding of iovec/msghdr from the SQE in harness/src/props/c10.rs (layouts asserted against libc)"],
    ),
    "C12": dict(
        driver="C12",
        model="Model/Teardown.v",
        run_fn="run_tdcase",
        theorems=["C12_teardown_memory_safe", "C12_teardown_log_safe", "C12_teardown_releases_everything",
                  "C12_teardown_exactly_once", "C12_teardown_of_populations",
                  "C12_fd_dropped_after_ring_refuted", "C12_abandoned_ops_beyond_cq_capacity_refuted",
                  "C12_teardown_releases_everything_fixed"],
        rule="one splitmix64 stream per case (VERIF_SEED, index) on the simulated kernel: a Ring with (sq, cq) entries in "
             "{(2,2), (2,4), (4,4), (4,8)} and random 32-bit start counters; 0..2 SubmissionQueue clones; 0..3 AsyncFds "
             "over fake descriptors; 0..4 operations, each on a random AsyncFd (read into a Vec, multishot accept) or "
             "owning a SubmissionQueue (socket), each in a starting state from {never polled, submission queued, in "
             "flight, final completion processed but result not taken, finished} (one case in three with mostly "
             "in-flight operations so that the drain overflows), queued ones limited to the queue size; 0..2 "
             "ReadBufPools with 0..2 ReadBufs each, obtained through a completed pool read on a throw-away descriptor; "
             "the drop order is a random permutation of all objects with every future before the AsyncFd it borrows "
             "(a quarter each: Ring first, Ring last) and 0..2 kernel completions of random operations inserted at "
             "random positions; every case runs in a forked child. Thorough: 20 000 cases, all 120 orders of a fixed "
             "population of five objects (ring, clone, fd, in-flight read on it, pool; the 60 orders the borrow checker "
             "accepts are run), and 48 populations on the real kernel (pipes, in-flight/queued/unstarted reads, pools "
             "with buffers from real reads) checked only by /proc/self/fd, /proc/self/maps and the number of live heap "
             "blocks; non-trivial = at least three drops; distinct by the Coq case term",
        assumptions=["kernel contract K1-K4 (DESIGN.md §5) as the simulated kernel implements it: submissions consumed "
                     "in order on enter; CLOSE executes at once; ASYNC_CANCEL of an in-flight request posts the target's "
                     "final completion (cancellation always wins in these cases); REGISTER_SYNC_CANCEL(ANY|ALL) posts a "
                     "final completion for everything in flight; a completion goes into the ring when there is room and "
                     "the overflow list is empty, else onto the overflow list; every enter flushes the overflow list "
                     "into free slots",
                     "no kernel submission thread (IORING_SETUP_SQPOLL off); munmap, close and io_uring_register succeed",
                     "a future is not dropped after the AsyncFd it borrows (borrows_ok: enforced by the borrow checker); "
                     "every object is dropped at most once (ownership; the model ignores a second drop)",
                     "operation resources do not themselves hold a ReadBuf / ReadBufPool (reads into pool buffers are "
                     "completed before the teardown starts); ReadBufs are owned buffers (release writes the pool ring)",
                     "the theorems are stated over any state satisfying the invariant wf; init_wf proves it for every "
                     "population whose operations name existing AsyncFds and whose ReadBufs name existing pools",
                     "H13 (fd-dropped-after-ring) and H14 (abandoned-ops-beyond-cq-capacity) are named exceptions of "
                     "C12_teardown_releases_everything, each with a witness; the model wired into the correspondence is "
                     "drop_ring (the code as it is), drop_ring_fixed models proposed_fix_h14.diff"],
        trusted=["simulated kernel harness/src/simk.rs (twin of the kernel contract K1-K8; notes a closed ring "
                 "descriptor at the next ring call)",
                 "tracking allocator harness/src/alloc.rs (frees of watched addresses, frees of blocks that are not live)",
                 "a10 verif hook A (src/verif.rs): enter, register, mmap, munmap, close",
                 "fcntl(F_GETFD) as the account of whether the ring descriptor is open; /proc/self/fd and "
                 "/proc/self/maps in the real-kernel tier",
                 "how the driver learns addresses: operation state = the heap-block word of the future (checked against "
                 "user_data once submitted), pool allocations = ring_addr of the registration and the lowest buffer "
                 "address in the ring"],
    ),
    "C14": dict(
        driver="C14",
        model="Model/BufTraits.v",
        run_fn="run_bcase",
        theorems=["C14_exposed_pairs_in_bounds", "C14_reported_lengths_agree",
                  "C14_set_init_appends_in_order", "C14_limit_never_exceeded"],
        rule="one splitmix64 stream per case (VERIF_SEED, index): family in {Buf x 12 provided types, BufMut, "
             "BufSlice/BufMutSlice as arrays and tuples of arity 1..8}, lengths/capacities with empty and full "
             "buffers, limit in {none, <= total, 2^32+k, k*2^32+j, boundary pool incl. usize::MAX}, 1..5 "
             "query/set_init operations with the bytes written through the exposed iovecs first; non-trivial = "
             "some capacity > 0 and (a limit, arity > 1 or a set_init); distinct by the Coq case term",
        assumptions=["buffers shorter than 2^32 bytes (hypothesis wf; larger buffers: known finding H17)",
                     "Vec/Box/Arc/String allocation behaviour is std's; addresses are canonicalised to offsets"],
        trusted=["Rust std allocation behaviour of Vec/Box/Arc/String (modelled as base/len/cap triples)"],
    ),
    "C16": dict(
        driver="C16",
        model="Model/SockAddr.v",
        run_fn="run_sacase_fixed",
        theorems=["C16_sockaddr_roundtrip_except_unix_path", "C16_h7_unix_path_reads_back_unnamed",
                  "C16_sockaddr_roundtrip_refuted", "C16_sockaddr_roundtrip_fails",
                  "C16_ptr_len_covers_except_short_abstract", "C16_h8_unix_abstract_arrives_padded",
                  "C16_ptr_len_covers_refuted", "C16_ptr_len_covers_fails",
                  "C16_bind_getsockname_roundtrip_except_unix",
                  "C16_sockaddr_roundtrip_fixed", "C16_ptr_len_covers_family_struct_fixed",
                  "C16_bind_getsockname_roundtrip_fixed"],
        rule="sweep first: Unix pathnames of every length 1..107 and abstract names of every length 0..107 "
             "(2 each, bytes from three styles incl. non-UTF-8 and embedded/trailing NULs for names), unnamed, "
             "NoAddress, 10 boundary ports x 4 IPv4 addresses and x 16 (flowinfo, scope_id) boundary pairs for IPv6, "
             "each through the family type and through SocketAddr; corpus for H7/H8 and a 108-byte pathname reply; "
             "then one splitmix64 stream per case (VERIF_SEED, index): class in {IPv4, IPv6, path, abstract, unnamed, "
             "NoAddress, raw sockaddr_un contents, raw sockaddr_in/in6 contents}, filler byte for the unwritten part "
             "of the storage, 0..2 extra reported lengths (incl. ones that trip the debug assertions); "
             "thorough adds real bind/getsockname on Unix (temp dir, abstract) and loopback sockets; "
             "non-trivial = any case but NoAddress; distinct by the Coq case term",
        assumptions=["x86-64 Linux layouts: sockaddr_in 16, sockaddr_in6 28, sockaddr_un 2+108 bytes, little-endian "
                     "(asserted by the harness against libc at start-up)",
                     "Unix pathnames of 1..107 bytes without NUL and abstract names of 0..107 bytes: what "
                     "std::os::unix::net::SocketAddr can hold (108 bytes are refused by std; recorded in the evidence)",
                     "Linux's reading of a (pointer, length) name and the length it reports (kernel_view, wire, "
                     "kernel_len) are stated from unix(7)/ip(7)/ipv6(7) and net/unix/af_unix.c; the thorough tier "
                     "corroborates them on the running kernel",
                     "sin6_flowinfo is the u32 std stores, in host order (as std itself converts it)",
                     "init is only given lengths up to the as_mut_ptr capacity (a 108-byte pathname makes Linux "
                     "report 111 > 110: outside the quantification, noted in the report)",
                     "debug build: a failing debug_assert! in init is the outcome None of the model"],
        trusted=["std's SocketAddr::{from_pathname, from_abstract_name, as_pathname, as_abstract_name, is_unnamed} "
                 "(modelled by from_pathname/UnAbstract of Model/SockAddr.v; exercised by every Unix case)",
                 "Linux address semantics as stated in kernel_view/wire/kernel_len (coq/Proofs/SockAddrProofs.v)"],
    ),
    "C15": dict(
        driver="C15",
        model="Model/ReadBufEdit.v",
        run_fn="run_rbcase",
        release_too=True,
        theorems=["C15_readbuf_refines_bounded_vec_step", "C15_readbuf_refines_bounded_vec",
                  "C15_readbuf_refines_bounded_vec_checked_build", "C15_readbuf_refines_bounded_vec_every_build",
                  "C15_rejection_changes_nothing",
                  "C15_edits_confined_to_slot", "C15_reads_confined_to_slot", "C15_release_slot_unchanged"],
        rule="one splitmix64 stream per case (VERIF_SEED, index): a real ReadBufPool on a real ring with pool_size in "
             "{1,2,4,8} and buf_size in 1..64 (1, 2 and 64 over-weighted); every slot filled by a real read from a pipe "
             "(fill 1, capacity-1, capacity or uniform), all unused capacity overwritten with known bytes; one buffer "
             "(any slot) receives 1..8 calls drawn from truncate / clear / remove (a..b, a..=b, ..b, ..=b, a.., .., "
             "(Bound,Bound) pairs with Excluded starts; two thirds valid for the current length incl. empty and at either "
             "end, the rest from {0,1,len-1,len,len+1,len/2,cap,cap+1,usize::MAX-1,usize::MAX}) / set_len (beyond the "
             "capacity only in the build with debug assertions) / extend_from_slice (0, exactly fitting, one too many, "
             "cap+1) / spare_capacity_mut / repeated real read into the owned buffer / BufMut::extend_from_slice "
             "(parts_mut + set_init); then the buffer is dropped and one more read is issued; the H23 regression corpus "
             "(bounds Excluded(usize::MAX) / Included(usize::MAX)) runs first; 1 in 12 cases runs the calls "
             "on a not yet filled buffer (model tie only, outside the property); non-trivial = owned buffer with at "
             "least one call; distinct by the Coq case term (which contains the pool memory)",
        assumptions=["buf_size is a non-zero u32 and pool_size <= 2^15 (hypothesis pool_ok; ReadBufPool::new asks for both)",
                     "the buffer was delivered by the kernel: pointer = start of slot id < pool_size, length <= buf_size "
                     "(hypothesis owned_wf, established by init_buffer: lemma init_state_wf)",
                     "in a build without debug assertions: set_len (an unsafe fn) is called within its documented "
                     "contract new_len <= capacity (predicate edit_ok / set_len_in_contract; True in a build with the "
                     "assertion). Nothing is assumed about range bounds since the repair of H23 (dcfd7cd); what the "
                     "code did before: C15_remove_bounds_h23_refuted",
                     "the kernel stores read data only inside the (address, length) it was given and selects only "
                     "buffers it was handed (kernel behaviour, observed not proved)"],
        trusted=["std Vec<u8> as the reference in the harness (truncate, clear, drain, extend_from_slice, set_len; "
                 "drain leaves the bytes beyond the new length untouched)",
                 "Linux io_uring provided-buffer selection and pipe reads (real kernel, no simulator)"],
    ),
    "C18": dict(
        driver="C18",
        model="Model/Build.v",
        run_fn="run_bcase18",
        release_too=True,
        theorems=["C18_build_all_or_nothing", "C18_build_outcome_function_of_answers", "C18_build_never_panics",
                  "C18_params_honour_config", "C18_setters_honoured", "C18_build_checked_overflow_panics_witness"],
        rule="configurations x refusal points, fully crossed, on the simulated kernel: configuration k from one splitmix64 "
             "stream (VERIF_SEED, k): 8 fixed ones (default, everything set, kernel thread, maximum size, and four that "
             "Linux rejects with EINVAL) then random lists of setter calls in random order (queue sizes from pools with "
             "0, non powers of two, 32768/32769, 65536/65537, u32::MAX; clamp; kernel thread, cpu affinity, idle timeouts "
             "up to Duration::MAX; single issuer; defer taskrun; disabled; attach to another ring; direct descriptor "
             "tables of 0..2^15 slots; repeated calls); each is built under each of 26 kernel behaviours: no refusal, "
             "io_uring_setup failing with 5 errnos, each of the 4 required feature bits missing, none/two missing/all 32 "
             "bits set, a descriptor that cannot be mapped, mmap number 0/1/2 failing, madvise number 0/1/2 failing, "
             "IORING_REGISTER_FILES2 failing with 2 errnos, another register opcode failing, 3 double refusals; a "
             "returned ring is inspected and dropped; thorough adds 20 builds on the real kernel (EINVAL before the "
             "descriptor exists, EMFILE/EINVAL from the file table registration after the mappings exist, an address "
             "space limit that makes a mapping fail, successful builds and drops) checked by /proc/self/fd and "
             "/proc/self/maps only; non-trivial = at least one setter or a refusal; distinct by the Coq case term",
        assumptions=["the kernel's behaviour is an arbitrary answer to each question build asks (setup, three mmap, three "
                     "madvise, one register); the theorems quantify over all of them, the harness drives the 26 listed ones",
                     "munmap and close succeed on what mmap and io_uring_setup returned (their errors are ignored by the code)",
                     "io_uring_setup leaves the flags word of the parameter block as it was passed in (the simulated "
                     "kernel does; the theorems are stated for whatever flags are left there)",
                     "C18_build_never_panics: built without overflow checks, or granted sizes with sq_off.array + 4*sq and "
                     "cq_off.cqes + 16*cq below 2^32 (Linux caps the sizes at 32768 and 65536 entries)",
                     "the ring's private fields are read through its Debug rendering"],
        trusted=["simulated kernel harness/src/simk.rs (io_uring_setup parameter validation as in io_uring_create, memfd "
                 "backed mappings, failure injection)",
                 "a10 verif hooks A (src/verif.rs, src/io_uring/libc.rs): setup, register, mmap, munmap, madvise",
                 "/proc/self/fd and /proc/self/maps as the account of descriptors and mappings"],
    ),
}

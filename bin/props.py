"""Per-property configuration for bin/check."""

PROPS = {
    "C14": dict(
        driver="C14",
        model="Model/BufTraits.v",
        run_fn="run_bcase",
        theorems=["C14_exposed_pairs_in_bounds", "C14_reported_lengths_agree",
                  "C14_set_init_appends_in_order", "C14_limit_never_exceeded"],
        rule="one splitmix64 stream per case (VERIF_SEED, index): family in {Buf x 12 provided types, BufMut, "
             "BufSlice/BufMutSlice as arrays and tuples of arity 1..8}, lengths/capacities with empty and full "
             "buffers, limit in {none, <= total, 2^32+k, k*2^32+j, boundary pool incl. usize::MAX}, 1..5 "
             "query/set_init operations with the bytes written through the exposed iovecs first; non-trivial = "
             "some capacity > 0 and (a limit, arity > 1 or a set_init); distinct by the Coq case term",
        assumptions=["buffers shorter than 2^32 bytes (hypothesis wf; larger buffers: known finding H17)",
                     "Vec/Box/Arc/String allocation behaviour is std's; addresses are canonicalised to offsets"],
        trusted=["Rust std allocation behaviour of Vec/Box/Arc/String (modelled as base/len/cap triples)"],
    ),
    "C15": dict(
        driver="C15",
        model="Model/ReadBufEdit.v",
        run_fn="run_rbcase",
        release_too=True,
        theorems=["C15_readbuf_refines_bounded_vec_step", "C15_readbuf_refines_bounded_vec",
                  "C15_readbuf_refines_bounded_vec_checked_build", "C15_rejection_changes_nothing",
                  "C15_edits_confined_to_slot", "C15_reads_confined_to_slot", "C15_release_slot_unchanged"],
        rule="one splitmix64 stream per case (VERIF_SEED, index): a real ReadBufPool on a real ring with pool_size in "
             "{1,2,4,8} and buf_size in 1..64 (1, 2 and 64 over-weighted); every slot filled by a real read from a pipe "
             "(fill 1, capacity-1, capacity or uniform), all unused capacity overwritten with known bytes; one buffer "
             "(any slot) receives 1..8 calls drawn from truncate / clear / remove (a..b, a..=b, ..b, ..=b, a.., .., "
             "(Bound,Bound) pairs with Excluded starts; two thirds valid for the current length incl. empty and at either "
             "end, the rest from {0,1,len-1,len,len+1,len/2,cap,cap+1,usize::MAX-1,usize::MAX}) / set_len (beyond the "
             "capacity only in the build with debug assertions) / extend_from_slice (0, exactly fitting, one too many, "
             "cap+1) / spare_capacity_mut / repeated real read into the owned buffer / BufMut::extend_from_slice "
             "(parts_mut + set_init); then the buffer is dropped and one more read is issued; 1 in 12 cases runs the calls "
             "on a not yet filled buffer (model tie only, outside the property); non-trivial = owned buffer with at "
             "least one call; distinct by the Coq case term (which contains the pool memory)",
        assumptions=["buf_size is a non-zero u32 and pool_size <= 2^15 (hypothesis pool_ok; ReadBufPool::new asks for both)",
                     "the buffer was delivered by the kernel: pointer = start of slot id < pool_size, length <= buf_size "
                     "(hypothesis owned_wf, established by init_buffer: lemma init_state_wf)",
                     "in a build without overflow checks / debug assertions: set_len is called within its documented "
                     "contract and no range bound needs usize::MAX + 1 (predicate edit_ok; it is True in a build with "
                     "the checks). The second restriction is a finding: see C15_release_build_remove_wraps_refuted",
                     "the kernel stores read data only inside the (address, length) it was given and selects only "
                     "buffers it was handed (kernel behaviour, observed not proved)"],
        trusted=["std Vec<u8> as the reference in the harness (truncate, clear, drain, extend_from_slice, set_len; "
                 "drain leaves the bytes beyond the new length untouched)",
                 "Linux io_uring provided-buffer selection and pipe reads (real kernel, no simulator)"],
    ),
}

"""Per-property configuration for bin/check."""


def _ops_entry(pid, theorems, focus):
    return dict(
        driver=pid,
        model="Model/OpState.v",
        run_fn="run_opcase",
        theorems=theorems,
        rule="one splitmix64 stream per case: 1..4 real operations (read into a heap buffer, zero-copy send with two "
             "completions, multishot accept) on a simulated ring with 1..8 submission slots and random 32-bit start "
             "counters; 4..26 events drawn from {poll with the same or a fresh waker, drop of the future, Ring::poll, "
             "kernel completion: success / short / error / EINTR / ECANCELED / more / notif}, cancellation winning or "
             "losing per operation; event weights biased towards " + focus + "; non-trivial = at least 4 events incl. a "
             "kernel completion; distinct by the Coq case term",
        assumptions=["kernel contract K1, K2, K4 (DESIGN.md §5) as implemented by the simulated kernel",
                     "API calls are atomic with respect to completion processing (per-operation mutex held across "
                     "submission and waker store; validated by the scheduler runs of C03/C04, not proved)",
                     "the completion queue is large enough (256) that no completion waits on the overflow list"],
        trusted=["simulated kernel harness/src/simk.rs", "tracking allocator harness/src/alloc.rs (which heap block "
                 "an address belongs to; frees of operation states)", "a10 verif hooks A/B"],
    )

PROPS = {
    "C09": _ops_entry("C09", ["C09_restart_transparent", "C09_final_completion_ends_attempt",
                              "C09_multi_interruption_with_more_surfaces_refuted",
                              "C09_multi_restart_with_queued_results_panics_refuted"],
                      "EINTR/ECANCELED completions"),
    "C01": _ops_entry("C01", ["C01_inflight_implies_allocated", "C01_addresses_stable",
                              "C01_reachable_states_well_formed"], "drops and completions"),
    "C02": _ops_entry("C02", ["C02_outputs_refine_kernel_script", "C02_single_result_is_the_only_result",
                              "C02_single_resolves_once", "C02_single_keeps_last_result_refuted"],
                      "completions and polls"),
    "C03": _ops_entry("C03", ["C03_readying_completion_wakes_latest_waker", "C03_queue_full_waiter_is_parked"],
                      "polls with replaced wakers"),
    "C06": _ops_entry("C06", ["C06_drop_cancels_exactly_it", "C06_cancel_targets_only_dropped",
                              "C06_state_freed_at_most_once", "C06_dropped_state_is_reclaimed"], "drops"),
    "C05": dict(
        driver="C05",
        model="Model/CqRing.v",
        run_fn="run_cqcase",
        release_too=True,
        theorems=["C05_cq_exactly_once_in_order", "C05_cq_reads_published_only",
                  "C05_cq_kernel_never_overwrites_unread", "C05_cq_poll_drains_ring",
                  "C05_cq_internal_never_dispatched"],
        rule="one splitmix64 stream per case: CQ of 1..16 entries on the simulated kernel, both ring counters "
             "starting at boundary values (0, 2^31-1.., 2^32-k) or random, 1..20 real write operations held in "
             "flight, a script of postings (operation completions in any order with unique results, user_data 0-3 "
             "bookkeeping entries, IORING_CQE_F_SKIP entries pointing at a trap) between polls, before the k-th "
             "operation entry inside a poll and before the head store; overflow list when the ring is full; "
             "non-trivial = at least 2 completions posted; distinct by the Coq case term",
        assumptions=["kernel contract K3 (CQEs written only into free slots, published by the tail, NODROP overflow) "
                     "as implemented by the simulated kernel",
                     "CQ sizes below 2^32 entries (the kernel caps them far lower)",
                     "sequentially consistent interleaving of kernel postings with the poll loop at hook-B points"],
        trusted=["simulated kernel harness/src/simk.rs (twin of the kernel contract K1-K8)",
                 "a10 verif hooks A/B (src/verif.rs)"],
    ),
    "C14": dict(
        driver="C14",
        model="Model/BufTraits.v",
        run_fn="run_bcase",
        theorems=["C14_exposed_pairs_in_bounds", "C14_reported_lengths_agree",
                  "C14_set_init_appends_in_order", "C14_limit_never_exceeded"],
        rule="one splitmix64 stream per case (VERIF_SEED, index): family in {Buf x 12 provided types, BufMut, "
             "BufSlice/BufMutSlice as arrays and tuples of arity 1..8}, lengths/capacities with empty and full "
             "buffers, limit in {none, <= total, 2^32+k, k*2^32+j, boundary pool incl. usize::MAX}, 1..5 "
             "query/set_init operations with the bytes written through the exposed iovecs first; non-trivial = "
             "some capacity > 0 and (a limit, arity > 1 or a set_init); distinct by the Coq case term",
        assumptions=["buffers shorter than 2^32 bytes (hypothesis wf; larger buffers: known finding H17)",
                     "Vec/Box/Arc/String allocation behaviour is std's; addresses are canonicalised to offsets"],
        trusted=["Rust std allocation behaviour of Vec/Box/Arc/String (modelled as base/len/cap triples)"],
    ),
    "C16": dict(
        driver="C16",
        model="Model/SockAddr.v",
        run_fn="run_sacase_fixed",
        theorems=["C16_sockaddr_roundtrip_except_unix_path", "C16_h7_unix_path_reads_back_unnamed",
                  "C16_sockaddr_roundtrip_refuted", "C16_sockaddr_roundtrip_fails",
                  "C16_ptr_len_covers_except_short_abstract", "C16_h8_unix_abstract_arrives_padded",
                  "C16_ptr_len_covers_refuted", "C16_ptr_len_covers_fails",
                  "C16_bind_getsockname_roundtrip_except_unix",
                  "C16_sockaddr_roundtrip_fixed", "C16_ptr_len_covers_family_struct_fixed",
                  "C16_bind_getsockname_roundtrip_fixed"],
        rule="sweep first: Unix pathnames of every length 1..107 and abstract names of every length 0..107 "
             "(2 each, bytes from three styles incl. non-UTF-8 and embedded/trailing NULs for names), unnamed, "
             "NoAddress, 10 boundary ports x 4 IPv4 addresses and x 16 (flowinfo, scope_id) boundary pairs for IPv6, "
             "each through the family type and through SocketAddr; corpus for H7/H8 and a 108-byte pathname reply; "
             "then one splitmix64 stream per case (VERIF_SEED, index): class in {IPv4, IPv6, path, abstract, unnamed, "
             "NoAddress, raw sockaddr_un contents, raw sockaddr_in/in6 contents}, filler byte for the unwritten part "
             "of the storage, 0..2 extra reported lengths (incl. ones that trip the debug assertions); "
             "thorough adds real bind/getsockname on Unix (temp dir, abstract) and loopback sockets; "
             "non-trivial = any case but NoAddress; distinct by the Coq case term",
        assumptions=["x86-64 Linux layouts: sockaddr_in 16, sockaddr_in6 28, sockaddr_un 2+108 bytes, little-endian "
                     "(asserted by the harness against libc at start-up)",
                     "Unix pathnames of 1..107 bytes without NUL and abstract names of 0..107 bytes: what "
                     "std::os::unix::net::SocketAddr can hold (108 bytes are refused by std; recorded in the evidence)",
                     "Linux's reading of a (pointer, length) name and the length it reports (kernel_view, wire, "
                     "kernel_len) are stated from unix(7)/ip(7)/ipv6(7) and net/unix/af_unix.c; the thorough tier "
                     "corroborates them on the running kernel",
                     "sin6_flowinfo is the u32 std stores, in host order (as std itself converts it)",
                     "init is only given lengths up to the as_mut_ptr capacity (a 108-byte pathname makes Linux "
                     "report 111 > 110: outside the quantification, noted in the report)",
                     "debug build: a failing debug_assert! in init is the outcome None of the model"],
        trusted=["std's SocketAddr::{from_pathname, from_abstract_name, as_pathname, as_abstract_name, is_unnamed} "
                 "(modelled by from_pathname/UnAbstract of Model/SockAddr.v; exercised by every Unix case)",
                 "Linux address semantics as stated in kernel_view/wire/kernel_len (coq/Proofs/SockAddrProofs.v)"],
    ),
    "C15": dict(
        driver="C15",
        model="Model/ReadBufEdit.v",
        run_fn="run_rbcase",
        release_too=True,
        theorems=["C15_readbuf_refines_bounded_vec_step", "C15_readbuf_refines_bounded_vec",
                  "C15_readbuf_refines_bounded_vec_checked_build", "C15_readbuf_refines_bounded_vec_every_build",
                  "C15_rejection_changes_nothing",
                  "C15_edits_confined_to_slot", "C15_reads_confined_to_slot", "C15_release_slot_unchanged"],
        rule="one splitmix64 stream per case (VERIF_SEED, index): a real ReadBufPool on a real ring with pool_size in "
             "{1,2,4,8} and buf_size in 1..64 (1, 2 and 64 over-weighted); every slot filled by a real read from a pipe "
             "(fill 1, capacity-1, capacity or uniform), all unused capacity overwritten with known bytes; one buffer "
             "(any slot) receives 1..8 calls drawn from truncate / clear / remove (a..b, a..=b, ..b, ..=b, a.., .., "
             "(Bound,Bound) pairs with Excluded starts; two thirds valid for the current length incl. empty and at either "
             "end, the rest from {0,1,len-1,len,len+1,len/2,cap,cap+1,usize::MAX-1,usize::MAX}) / set_len (beyond the "
             "capacity only in the build with debug assertions) / extend_from_slice (0, exactly fitting, one too many, "
             "cap+1) / spare_capacity_mut / repeated real read into the owned buffer / BufMut::extend_from_slice "
             "(parts_mut + set_init); then the buffer is dropped and one more read is issued; the H23 regression corpus "
             "(bounds Excluded(usize::MAX) / Included(usize::MAX)) runs first; 1 in 12 cases runs the calls "
             "on a not yet filled buffer (model tie only, outside the property); non-trivial = owned buffer with at "
             "least one call; distinct by the Coq case term (which contains the pool memory)",
        assumptions=["buf_size is a non-zero u32 and pool_size <= 2^15 (hypothesis pool_ok; ReadBufPool::new asks for both)",
                     "the buffer was delivered by the kernel: pointer = start of slot id < pool_size, length <= buf_size "
                     "(hypothesis owned_wf, established by init_buffer: lemma init_state_wf)",
                     "in a build without debug assertions: set_len (an unsafe fn) is called within its documented "
                     "contract new_len <= capacity (predicate edit_ok / set_len_in_contract; True in a build with the "
                     "assertion). Nothing is assumed about range bounds since the repair of H23 (dcfd7cd); what the "
                     "code did before: C15_remove_bounds_h23_refuted",
                     "the kernel stores read data only inside the (address, length) it was given and selects only "
                     "buffers it was handed (kernel behaviour, observed not proved)"],
        trusted=["std Vec<u8> as the reference in the harness (truncate, clear, drain, extend_from_slice, set_len; "
                 "drain leaves the bytes beyond the new length untouched)",
                 "Linux io_uring provided-buffer selection and pipe reads (real kernel, no simulator)"],
    ),
}

"""Per-property configuration for bin/check."""

PROPS = {
    "C14": dict(
        driver="C14",
        model="Model/BufTraits.v",
        run_fn="run_bcase",
        theorems=["C14_exposed_pairs_in_bounds", "C14_reported_lengths_agree",
                  "C14_set_init_appends_in_order", "C14_limit_never_exceeded"],
        rule="one splitmix64 stream per case (VERIF_SEED, index): family in {Buf x 12 provided types, BufMut, "
             "BufSlice/BufMutSlice as arrays and tuples of arity 1..8}, lengths/capacities with empty and full "
             "buffers, limit in {none, <= total, 2^32+k, k*2^32+j, boundary pool incl. usize::MAX}, 1..5 "
             "query/set_init operations with the bytes written through the exposed iovecs first; non-trivial = "
             "some capacity > 0 and (a limit, arity > 1 or a set_init); distinct by the Coq case term",
        assumptions=["buffers shorter than 2^32 bytes (hypothesis wf; larger buffers: known finding H17)",
                     "Vec/Box/Arc/String allocation behaviour is std's; addresses are canonicalised to offsets"],
        trusted=["Rust std allocation behaviour of Vec/Box/Arc/String (modelled as base/len/cap triples)"],
    ),
}

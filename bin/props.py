"""Per-property configuration for bin/check."""

PROPS = {
    "C05": dict(
        driver="C05",
        model="Model/CqRing.v",
        run_fn="run_cqcase",
        release_too=True,
        theorems=["C05_cq_exactly_once_in_order", "C05_cq_reads_published_only",
                  "C05_cq_kernel_never_overwrites_unread", "C05_cq_poll_drains_ring",
                  "C05_cq_internal_never_dispatched"],
        rule="one splitmix64 stream per case: CQ of 1..16 entries on the simulated kernel, both ring counters "
             "starting at boundary values (0, 2^31-1.., 2^32-k) or random, 1..20 real write operations held in "
             "flight, a script of postings (operation completions in any order with unique results, user_data 0-3 "
             "bookkeeping entries, IORING_CQE_F_SKIP entries pointing at a trap) between polls, before the k-th "
             "operation entry inside a poll and before the head store; overflow list when the ring is full; "
             "non-trivial = at least 2 completions posted; distinct by the Coq case term",
        assumptions=["kernel contract K3 (CQEs written only into free slots, published by the tail, NODROP overflow) "
                     "as implemented by the simulated kernel",
                     "CQ sizes below 2^32 entries (the kernel caps them far lower)",
                     "sequentially consistent interleaving of kernel postings with the poll loop at hook-B points"],
        trusted=["simulated kernel harness/src/simk.rs (twin of the kernel contract K1-K8)",
                 "a10 verif hooks A/B (src/verif.rs)"],
    ),
    "C14": dict(
        driver="C14",
        model="Model/BufTraits.v",
        run_fn="run_bcase",
        theorems=["C14_exposed_pairs_in_bounds", "C14_reported_lengths_agree",
                  "C14_set_init_appends_in_order", "C14_limit_never_exceeded"],
        rule="one splitmix64 stream per case (VERIF_SEED, index): family in {Buf x 12 provided types, BufMut, "
             "BufSlice/BufMutSlice as arrays and tuples of arity 1..8}, lengths/capacities with empty and full "
             "buffers, limit in {none, <= total, 2^32+k, k*2^32+j, boundary pool incl. usize::MAX}, 1..5 "
             "query/set_init operations with the bytes written through the exposed iovecs first; non-trivial = "
             "some capacity > 0 and (a limit, arity > 1 or a set_init); distinct by the Coq case term",
        assumptions=["buffers shorter than 2^32 bytes (hypothesis wf; larger buffers: known finding H17)",
                     "Vec/Box/Arc/String allocation behaviour is std's; addresses are canonicalised to offsets"],
        trusted=["Rust std allocation behaviour of Vec/Box/Arc/String (modelled as base/len/cap triples)"],
    ),
    "C16": dict(
        driver="C16",
        model="Model/SockAddr.v",
        run_fn="run_sacase_fixed",
        theorems=["C16_sockaddr_roundtrip_except_unix_path", "C16_h7_unix_path_reads_back_unnamed",
                  "C16_sockaddr_roundtrip_refuted", "C16_sockaddr_roundtrip_fails",
                  "C16_ptr_len_covers_except_short_abstract", "C16_h8_unix_abstract_arrives_padded",
                  "C16_ptr_len_covers_refuted", "C16_ptr_len_covers_fails",
                  "C16_bind_getsockname_roundtrip_except_unix",
                  "C16_sockaddr_roundtrip_fixed", "C16_ptr_len_covers_family_struct_fixed",
                  "C16_bind_getsockname_roundtrip_fixed"],
        rule="sweep first: Unix pathnames of every length 1..107 and abstract names of every length 0..107 "
             "(2 each, bytes from three styles incl. non-UTF-8 and embedded/trailing NULs for names), unnamed, "
             "NoAddress, 10 boundary ports x 4 IPv4 addresses and x 16 (flowinfo, scope_id) boundary pairs for IPv6, "
             "each through the family type and through SocketAddr; corpus for H7/H8 and a 108-byte pathname reply; "
             "then one splitmix64 stream per case (VERIF_SEED, index): class in {IPv4, IPv6, path, abstract, unnamed, "
             "NoAddress, raw sockaddr_un contents, raw sockaddr_in/in6 contents}, filler byte for the unwritten part "
             "of the storage, 0..2 extra reported lengths (incl. ones that trip the debug assertions); "
             "thorough adds real bind/getsockname on Unix (temp dir, abstract) and loopback sockets; "
             "non-trivial = any case but NoAddress; distinct by the Coq case term",
        assumptions=["x86-64 Linux layouts: sockaddr_in 16, sockaddr_in6 28, sockaddr_un 2+108 bytes, little-endian "
                     "(asserted by the harness against libc at start-up)",
                     "Unix pathnames of 1..107 bytes without NUL and abstract names of 0..107 bytes: what "
                     "std::os::unix::net::SocketAddr can hold (108 bytes are refused by std; recorded in the evidence)",
                     "Linux's reading of a (pointer, length) name and the length it reports (kernel_view, wire, "
                     "kernel_len) are stated from unix(7)/ip(7)/ipv6(7) and net/unix/af_unix.c; the thorough tier "
                     "corroborates them on the running kernel",
                     "sin6_flowinfo is the u32 std stores, in host order (as std itself converts it)",
                     "init is only given lengths up to the as_mut_ptr capacity (a 108-byte pathname makes Linux "
                     "report 111 > 110: outside the quantification, noted in the report)",
                     "debug build: a failing debug_assert! in init is the outcome None of the model"],
        trusted=["std's SocketAddr::{from_pathname, from_abstract_name, as_pathname, as_abstract_name, is_unnamed} "
                 "(modelled by from_pathname/UnAbstract of Model/SockAddr.v; exercised by every Unix case)",
                 "Linux address semantics as stated in kernel_view/wire/kernel_len (coq/Proofs/SockAddrProofs.v)"],
    ),
    "C15": dict(
        driver="C15",
        model="Model/ReadBufEdit.v",
        run_fn="run_rbcase",
        release_too=True,
        theorems=["C15_readbuf_refines_bounded_vec_step", "C15_readbuf_refines_bounded_vec",
                  "C15_readbuf_refines_bounded_vec_checked_build", "C15_rejection_changes_nothing",
                  "C15_edits_confined_to_slot", "C15_reads_confined_to_slot", "C15_release_slot_unchanged"],
        rule="one splitmix64 stream per case (VERIF_SEED, index): a real ReadBufPool on a real ring with pool_size in "
             "{1,2,4,8} and buf_size in 1..64 (1, 2 and 64 over-weighted); every slot filled by a real read from a pipe "
             "(fill 1, capacity-1, capacity or uniform), all unused capacity overwritten with known bytes; one buffer "
             "(any slot) receives 1..8 calls drawn from truncate / clear / remove (a..b, a..=b, ..b, ..=b, a.., .., "
             "(Bound,Bound) pairs with Excluded starts; two thirds valid for the current length incl. empty and at either "
             "end, the rest from {0,1,len-1,len,len+1,len/2,cap,cap+1,usize::MAX-1,usize::MAX}) / set_len (beyond the "
             "capacity only in the build with debug assertions) / extend_from_slice (0, exactly fitting, one too many, "
             "cap+1) / spare_capacity_mut / repeated real read into the owned buffer / BufMut::extend_from_slice "
             "(parts_mut + set_init); then the buffer is dropped and one more read is issued; 1 in 12 cases runs the calls "
             "on a not yet filled buffer (model tie only, outside the property); non-trivial = owned buffer with at "
             "least one call; distinct by the Coq case term (which contains the pool memory)",
        assumptions=["buf_size is a non-zero u32 and pool_size <= 2^15 (hypothesis pool_ok; ReadBufPool::new asks for both)",
                     "the buffer was delivered by the kernel: pointer = start of slot id < pool_size, length <= buf_size "
                     "(hypothesis owned_wf, established by init_buffer: lemma init_state_wf)",
                     "in a build without overflow checks / debug assertions: set_len is called within its documented "
                     "contract and no range bound needs usize::MAX + 1 (predicate edit_ok; it is True in a build with "
                     "the checks). The second restriction is a finding: see C15_release_build_remove_wraps_refuted",
                     "the kernel stores read data only inside the (address, length) it was given and selects only "
                     "buffers it was handed (kernel behaviour, observed not proved)"],
        trusted=["std Vec<u8> as the reference in the harness (truncate, clear, drain, extend_from_slice, set_len; "
                 "drain leaves the bytes beyond the new length untouched)",
                 "Linux io_uring provided-buffer selection and pipe reads (real kernel, no simulator)"],
    ),
    "C17": dict(
        driver="C17",
        model="Model/Inotify.v",
        run_fn="run_incase",
        theorems=["C17_events_decoded_exactly", "C17_reads_in_bounds", "C17_unnamed_padded_yields_nuls",
                  "C17_process_fuel_irrelevant", "C17_kernel_exact_pads", "C17_kernel_record_fits_buf",
                  "C17_kernel_record_aligned", "C17_event_valid_when_handed_out",
                  "C17_event_stable_until_next_read",
                  "C17_event_validity_h10_refuted", "C17_h10_overwritten_witness", "C17_h10_dangling_witness"],
        rule="one splitmix64 stream per case (VERIF_SEED, index): a real Watcher (real inotify_init1; 0..4 real "
             "inotify_add_watch calls through watch / watch_directory / watch_file on paths of a per-case temporary tree, "
             "spelled with and without trailing '/', '//', '/.', './', the same inode under two spellings) on a ring of the "
             "simulated kernel; a script of 0..6 READ completions: batches of 1..5 records or as many as fit 272 bytes, "
             "0-byte reads, failures (EINVAL, EBADF, EINTR, ENOMEM, EIO, EAGAIN, ECANCELED), then an end (0-byte read or "
             "failure) in 3 of 5 cases, else the last READ stays pending; records: 85% user-visible with any mask bits "
             "(single flags, flag|IN_ISDIR, 0, all ones, random u32), 10% IN_IGNORED (alone or with other bits incl. "
             "IN_Q_OVERFLOW), 5% IN_Q_OVERFLOW; descriptor = one returned by the kernel (5/6) or unknown (0, 9, 77, 1000, -5, "
             "i32::MIN, i32::MAX); names of length 0 (1/4), 1..15, 16, boundary lengths, 239..254, 255, uniform 1..255, from "
             "letters / printable ASCII / any byte but NUL and '/' / a fixed set incl. 0x80, 0xff, newline; padding = the "
             "kernel's (NUL + round up to 16) in 3 of 5 named records, else any of 0..31 that keeps the record 4-byte "
             "aligned (0 for no name); cookie 0 or random; 0..2 polls after the end; each event kept for 0/1/2/3 further "
             "polls or to the end and read again (Debug, file_path), kept references probed after drop(events) in 2 of 3 "
             "cases; non-trivial = at least one user-visible record or two records; distinct by the Coq case term",
        assumptions=["records are well formed (hypothesis wf_record): name of 0..255 bytes without NUL and '/', fields fit "
                     "i32/u32, and a record without a name has len = 0 (kernel_pads; inotify(7), fs/notify/inotify/"
                     "inotify_user.c round_event_name_len) - on the never-emitted shape (no name, len > 0) the code hands "
                     "out len NUL bytes as the name: C17_unnamed_padded_yields_nuls",
                     "every read completion carries whole records (read(2) on inotify never splits an event) in at most "
                     "the 272 bytes asked for",
                     "records keep the header 4-byte aligned (the kernel pads to 16): a debug build aborts on a misaligned "
                     "header, so the harness only generates aligned records; the model has no notion of alignment",
                     "64-bit usize: processed + 16 + len cannot wrap",
                     "the operation layer under fd.read reissues reads that fail with EINTR / ECANCELED and turns EINVAL into "
                     "an error of kind Unsupported without errno (src/io_uring/op.rs); modelled by op_restarts / op_errno",
                     "paths: PathBuf::push on Unix (a separator is added unless the watched path ends in one; a name "
                     "starting with '/' would replace it - excluded by wf_record)",
                     "watch descriptors map to the path of the most recent watch call that returned them (HashMap insert)",
                     "H10: what an outdated reference shows is modelled only while the buffer is allocated (the bytes of "
                     "the latest read over those of earlier ones); after the iterator ended or was dropped the model says "
                     "'dangling' and the harness confirms the block was freed by getting it back from the allocator"],
        trusted=["simulated kernel harness/src/simk.rs (READ completions scripted by the driver)",
                 "a10 verif hook A (src/verif.rs)",
                 "Linux inotify_init1 / inotify_add_watch on the running kernel (descriptor numbers only)",
                 "Event's Debug output as the public view of wd, mask and cookie"],
    ),
}
